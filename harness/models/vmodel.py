"""A purpose-built mapped model for the object <-> DAO <-> SQL checks (C04, C05, C07).

   VA (name, kind: enum, when: Optional[datetime], nums: List[int], weight: Optional[float], k: Optional[VK] custom typed, a, b: int, w: Optional[int])
      one: Optional[VA]   other: Optional[VC]   many: List[VC]
   VB(VA) (extra)
   VC (tag, j1, j2: JSON-serialisable objects in JSON columns)   back: Optional[VA]   m: Optional[VM]   peers: List[VA]
   VW(VCU(VC)) (hidden, extra_w)           -- VCU is NOT mapped: VW's closest mapped ancestor is not its direct base
   VM (label) ref: Optional[VA]            -- alternatively mapped through VMMapping
The field order is the order ObjGraph.tla parses relationships in.
"""
from __future__ import annotations

import enum
from dataclasses import dataclass, field
from datetime import datetime
from types import FunctionType

from sqlalchemy import types, TypeDecorator
from typing_extensions import List, Optional

from krrood.ormatic.dao import AlternativeMapping, T
from harness.models import jsonmodel, jsonmodel2


class Kind(enum.Enum):
    X = "x"
    Y = "y"


@dataclass
class VK:
    """A value object stored through a custom column type."""
    code: int = 0


class VKType(TypeDecorator):
    impl = types.String(64)
    cache_ok = True

    def process_bind_param(self, value, dialect):
        return None if value is None else f"K{value.code}"

    def process_result_value(self, value, dialect):
        return None if value is None else VK(int(str(value)[1:]))


@dataclass(eq=False)
class VA:
    name: str = ""
    kind: Kind = Kind.X
    when: Optional[datetime] = None
    nums: List[int] = field(default_factory=list)
    weight: Optional[float] = None
    k: Optional[VK] = None
    a: int = 0
    b: int = 0
    w: Optional[int] = None
    label: str = ""
    one: Optional[VA] = None
    other: Optional[VC] = None
    many: List[VC] = field(default_factory=list)


@dataclass(eq=False)
class VB(VA):
    extra: int = 0


class Fa:
    @staticmethod
    def act():
        return "Fa.act"


class Fb:
    @staticmethod
    def act():            # the same function name in another class of the same module
        return "Fb.act"


def plain_function():
    return "plain"


@dataclass(eq=False)
class VC:
    tag: int = 0
    cb: Optional[FunctionType] = None     # a function-valued field (alternatively mapped by FunctionMapping)
    tag2: int = 0
    j1: Optional[jsonmodel.A] = None       # polymorphic JSON column
    j2: Optional[jsonmodel2.A] = None      # a serialisable class of the same short name from another module
    x: Optional[VX] = None                 # parsed BEFORE back: what x reaches is met through x first
    back: Optional[VA] = None
    m: Optional[VM] = None
    peers: List[VA] = field(default_factory=list)


@dataclass(eq=False)
class VCU(VC):
    """An intermediate class of the hierarchy that is NOT given to ORMatic (not mapped), with a field of its own."""
    hidden: int = 0


@dataclass(eq=False)
class VW(VCU):
    """A mapped class whose closest mapped ancestor (VC) is not its direct base; VC has no other subclass."""
    extra_w: int = 0


@dataclass(eq=False)
class VM:
    label: str = ""
    ref: Optional[VA] = None


@dataclass(eq=False)
class VN(VM):
    """A normally mapped subclass of the alternatively mapped VM."""
    extra: int = 0


@dataclass(eq=False)
class VX:
    """Alternatively mapped through a mapping class that keeps the collection under ANOTHER name (animals) than the
    constructor argument (pets)."""
    label: str = ""
    pets: List[VA] = field(default_factory=list)


@dataclass(eq=False)
class VY(VX):
    """A normally mapped subclass of the alternatively mapped VX: it can take `pets` only from the reconstructed parent."""
    extra: int = 0


@dataclass
class VXMapping(AlternativeMapping[VX]):
    label: str
    animals: List[VA]

    @classmethod
    def create_instance(cls, obj: T):
        return cls(obj.label, obj.pets)

    def create_from_dao(self) -> T:
        return VX(self.label, self.animals)


@dataclass
class VMMapping(AlternativeMapping[VM]):
    label: str
    ref: Optional[VA]

    @classmethod
    def create_instance(cls, obj: T):
        return cls(obj.label, obj.ref)

    def create_from_dao(self) -> T:
        return VM(self.label, self.ref)


MAPPED = [VA, VB, VC, VW, VM, VN, VX, VY]
