"""A package that exists on disk but cannot be imported (its dependency is missing)."""
import a_dependency_that_is_not_installed_anywhere  # noqa: F401
