"""A second module with a serialisable class of the same short name as harness.models.jsonmodel.A (a different class)."""
from dataclasses import dataclass
from typing import Any

from krrood.adapters.json_serializer import SubclassJSONSerializer, to_json, from_json


@dataclass
class A(SubclassJSONSerializer):
    x: Any
    y: Any
    marker: str = "second module"

    def to_json(self):
        d = super().to_json()
        d.update({"x": to_json(self.x), "y": to_json(self.y)})
        return d

    @classmethod
    def _from_json(cls, data, **kwargs):
        return cls(x=from_json(data["x"]), y=from_json(data["y"]))
