"""Harness Symbol classes (module level, resolvable annotations) for the registry / ontology checks.

Hierarchy for C13:  Base <- Mid <- Leaf ;  Other ;  diamond  DA <- DB1, DB2 <- DD.
Family ontology for C15/C16 (rule interplay the university model lacks):
   ancestor_of is transitive, has the inverse descendant_of and is a sub-property of related_to (plain) ;
   knows (list) has the inverse known_by (set) ; best_friend_of is a sub-property of friend_of which is a sub-property of
   knows, and no class has a friend_of field (a skipped level of the hierarchy).
"""
from __future__ import annotations

from dataclasses import dataclass, field

from typing_extensions import List, Set, Type

from krrood.entity_query_language.predicate import Symbol
from krrood.ontomatic.property_descriptor.mixins import HasInverseProperty, TransitiveProperty
from krrood.ontomatic.property_descriptor.property_descriptor import PropertyDescriptor


@dataclass(eq=False)
class Base(Symbol):
    n: int = 0


@dataclass(eq=False)
class Mid(Base):
    pass


@dataclass(eq=False)
class Leaf(Mid):
    pass


@dataclass(eq=False)
class Other(Symbol):
    n: int = 0


@dataclass(eq=False)
class DA(Symbol):
    n: int = 0


@dataclass(eq=False)
class DB1(DA):
    pass


@dataclass(eq=False)
class DB2(DA):
    pass


@dataclass(eq=False)
class DD(DB1, DB2):
    pass


@dataclass(eq=False)
class FPerson(Symbol):
    name: str = ""
    related_to: List[FPerson] = field(default_factory=list)
    ancestor_of: List[FPerson] = field(default_factory=list)
    descendant_of: List[FPerson] = field(default_factory=list)
    knows: List[FPerson] = field(default_factory=list)
    known_by: Set[FPerson] = field(default_factory=set)
    best_friend_of: List[FPerson] = field(default_factory=list)
    mentor_of: List[FPerson] = field(default_factory=list)
    teaches: List[FPerson] = field(default_factory=list)
    taught_by: List[FPerson] = field(default_factory=list)


@dataclass
class DescendantOf(PropertyDescriptor, HasInverseProperty):
    @classmethod
    def get_inverse(cls) -> Type[AncestorOf]:
        return AncestorOf


@dataclass
class RelatedTo(PropertyDescriptor):
    pass


@dataclass
class AncestorOf(RelatedTo, HasInverseProperty, TransitiveProperty):
    @classmethod
    def get_inverse(cls) -> Type[DescendantOf]:
        return DescendantOf


@dataclass
class KnownBy(PropertyDescriptor, HasInverseProperty):
    @classmethod
    def get_inverse(cls) -> Type[Knows]:
        return Knows


@dataclass
class Knows(PropertyDescriptor, HasInverseProperty):
    @classmethod
    def get_inverse(cls) -> Type[KnownBy]:
        return KnownBy


@dataclass
class Teaches(Knows):
    """A sub-property that declares its own, more specific inverse."""

    @classmethod
    def get_inverse(cls) -> Type[TaughtBy]:
        return TaughtBy


@dataclass
class TaughtBy(KnownBy):
    @classmethod
    def get_inverse(cls) -> Type[Teaches]:
        return Teaches


@dataclass
class FriendOf(Knows):
    """An intermediate level of the property hierarchy for which no class has a field."""


@dataclass
class BestFriendOf(FriendOf):
    pass


@dataclass
class GuideOf(RelatedTo):
    """An intermediate level without a field anywhere (and, unlike FriendOf, without an inverse to fall back on)."""


@dataclass
class MentorOf(GuideOf):
    pass


FPerson.related_to = RelatedTo(FPerson, "related_to")
FPerson.ancestor_of = AncestorOf(FPerson, "ancestor_of")
FPerson.descendant_of = DescendantOf(FPerson, "descendant_of")
FPerson.knows = Knows(FPerson, "knows")
FPerson.known_by = KnownBy(FPerson, "known_by")
FPerson.best_friend_of = BestFriendOf(FPerson, "best_friend_of")
FPerson.mentor_of = MentorOf(FPerson, "mentor_of")
FPerson.teaches = Teaches(FPerson, "teaches")
FPerson.taught_by = TaughtBy(FPerson, "taught_by")

@dataclass(eq=False)
class GPlace(Symbol):
    """The base class declares only the SUB-property (directly_in); the field of its super-property (located_in) exists on the
    subclass GRegion only - every geo instance is a GRegion, so every instance has both."""
    name: str = ""
    directly_in: List[GRegion] = field(default_factory=list)


@dataclass(eq=False)
class GRegion(GPlace):
    """Geo model for C15: located_in is transitive and has no inverse; directly_in is a sub-property of it."""
    located_in: List[GRegion] = field(default_factory=list)


@dataclass(eq=False)
class GCity(GRegion):
    """A subclass of the class that declares the managed fields."""


@dataclass
class LocatedIn(PropertyDescriptor, TransitiveProperty):
    pass


@dataclass
class DirectlyIn(LocatedIn):
    pass


GRegion.located_in = LocatedIn(GRegion, "located_in")
GPlace.directly_in = DirectlyIn(GPlace, "directly_in")

HIER = {"Base": Base, "Mid": Mid, "Leaf": Leaf, "Other": Other, "DA": DA, "DB1": DB1, "DB2": DB2, "DD": DD}
