"""Harness classes for the JSON checks (module level so that their fully qualified names resolve)."""
import datetime
import uuid
from dataclasses import dataclass
from typing import Any

from krrood.adapters.json_serializer import (SubclassJSONSerializer, JSONSerializableTypeRegistry, to_json, from_json,
                                              JSON_TYPE_NAME)
from krrood.utils import get_full_class_name


@dataclass
class A(SubclassJSONSerializer):
    x: Any
    y: Any

    def to_json(self):
        d = super().to_json()
        d.update({"x": to_json(self.x), "y": to_json(self.y)})
        return d

    @classmethod
    def _from_json(cls, data, **kwargs):
        return cls(x=from_json(data["x"]), y=from_json(data["y"]))


@dataclass
class B(A):
    pass


@dataclass
class C(B):
    pass


@dataclass
class It(A):
    """A serialisable object that is itself iterable (a container-like value such as a path of waypoints)."""

    def __iter__(self):
        return iter((self.x, self.y))


@dataclass
class D0(A):
    """A class of the hierarchy that customises subclass creation and does not call super().__init_subclass__()."""

    def __init_subclass__(cls, **kwargs):
        cls.registered_by_d0 = True


@dataclass
class D1(D0):
    pass


def _make():
    import dataclasses as _dc
    k = _dc.make_dataclass("MD", [], bases=(A,))       # created by a factory: its module is assigned after creation
    k.__module__ = __name__
    return k


MD = _make()


class MyUUID(uuid.UUID):
    """Neither a SubclassJSONSerializer nor registered - but a subclass of a type the library registers."""


class Stamp(datetime.date):
    """The same for a type the application registered (datetime.date, below)."""


class Plain:
    """A class that is neither a SubclassJSONSerializer nor registered."""


SOME_TEXT = "text"
SOME_TUPLE = (1, 2)


def some_function():
    return 1


def _ser_date(o):
    return {JSON_TYPE_NAME: get_full_class_name(type(o)), "iso": o.isoformat()}


# registration order: the base type first, then its subclass (datetime.datetime is a subclass of datetime.date)
JSONSerializableTypeRegistry().register(datetime.date, _ser_date, lambda d: datetime.date.fromisoformat(d["iso"]))
JSONSerializableTypeRegistry().register(datetime.datetime, _ser_date, lambda d: datetime.datetime.fromisoformat(d["iso"]))
