"""Synthesise a module of dataclasses from a ClassModel.tla model."""
import hashlib
import json

HEADER = '''from __future__ import annotations
import enum
from dataclasses import dataclass, field
from datetime import datetime
from typing_extensions import List, Set, Sequence, Optional, Type
from krrood.class_diagrams.utils import Role


class Color(enum.Enum):
    RED = 1
    GREEN = 2


class Outside:
    """A class that is not part of the model."""


'''
SUFFIX = {"K1": "a", "K2": "b", "K3": "c"}


def model_id(m):
    return hashlib.sha1(json.dumps([m["b2"], m["b3"], m["f1"], m["f2"], m["f3"], bool(m.get("u2")), bool(m.get("u3")), bool(m.get("role"))],
                                   sort_keys=True).encode()).hexdigest()[:10]


def cname(c, mid):
    return f"{c}_{mid}"


def annotation(f, mid):
    k, t = f["k"], f["t"]
    T = cname(t, mid) if t != "-" else None
    return {
        "int": ("int", "0"), "str": ("str", "''"), "bool": ("bool", "False"), "optfloat": ("Optional[float]", "None"),
        "dt": ("datetime", "field(default_factory=datetime.now)"), "optdt": ("Optional[datetime]", "None"),
        "enum": ("Color", "Color.RED"), "optenum": ("Optional[Color]", "None"),
        "liststr": ("List[str]", "field(default_factory=list)"),
        "ref": (T, "None"), "optref": (f"Optional[{T}]", "None"),
        "list": (f"List[{T}]", "field(default_factory=list)"), "set": (f"Set[{T}]", "field(default_factory=set)"),
        "seq": (f"Sequence[{T}]", "field(default_factory=list)"), "typ": (f"Type[{T}]", "None"),
        "priv": ("int", "0"), "refout": ("Outside", "None"),
    }[k]


def annotation_nofuture(f, mid):
    """The same annotations for a module WITHOUT `from __future__ import annotations`: references to classes of the model are
    string forward references nested inside the wrapper (Optional["K"], List["K"], ...) or bare strings."""
    k, t = f["k"], f["t"]
    ann, default = annotation(f, mid)
    if t != "-":
        T = cname(t, mid)
        ann = ann.replace(T, f'"{T}"')
    return ann, default


def source(m, future=True):
    mid = model_id(m)
    if not future:
        mid = mid + "nf"
    out = [HEADER if future else HEADER.replace("from __future__ import annotations\n", "")]
    ann_of = annotation if future else annotation_nofuture
    for c in ("K1", "K2", "K3"):
        base = {"K1": "-", "K2": m["b2"], "K3": m["b3"]}[c]
        fields = m["f" + c[1]]
        if base != "-" and m.get("u" + c[1]):
            # an intermediate class that is not part of the model, with a field of its own
            out.append(f"@dataclass(eq=False)\nclass U{c[1]}_{mid}({cname(base, mid)}):\n    h{SUFFIX[c]}: int = 0\n\n\n")
            base_name = f"U{c[1]}_{mid}"
        else:
            base_name = cname(base, mid) if base != "-" else None
        is_role = c == "K3" and m.get("role")
        if is_role:
            base_name = f"Role[{cname('K1', mid)}]"
        out.append("@dataclass(eq=False)\n")
        out.append(f"class {cname(c, mid)}" + (f"({base_name})" if base_name else "") + ":\n")
        if is_role:
            q = (lambda n: n) if future else (lambda n: f'"{n}"')
            out.append(f"    rtc: {q(cname('K1', mid))}\n    rec: {q(cname('K2', mid))}\n")
        elif not fields:
            out.append("    pass\n")
        for i, f in enumerate(fields, 1):
            ann, default = ann_of(f, mid)
            name = ("_" if f["k"] == "priv" else "") + f"f{i}{SUFFIX[c]}"
            out.append(f"    {name}: {ann} = {default}\n")
        out.append("\n\n")
    return mid, "".join(out)


SPLIT_HEADER = '''from __future__ import annotations
import enum
from dataclasses import dataclass, field
from datetime import datetime
from typing_extensions import List, Set, Sequence, Optional, Type, TYPE_CHECKING
from krrood.class_diagrams.utils import Role
from cmcommon import Color, Outside
'''

COMMON = '''import enum


class Color(enum.Enum):
    RED = 1
    GREEN = 2


class Outside:
    """A class that is not part of the model."""
'''


def source_split(m):
    """One module per class; classes that are only referred to in annotations are imported under TYPE_CHECKING, so that
    get_type_hints() cannot resolve them from the module globals (forward references resolved through the diagram)."""
    mid = model_id(m)
    mods = {}
    for c in ("K1", "K2", "K3"):
        base = {"K1": "-", "K2": m["b2"], "K3": m["b3"]}[c]
        fields = m["f" + c[1]]
        out = [SPLIT_HEADER]
        if base != "-":
            out.append(f"from cms_{mid}_{base} import {cname(base, mid)}\n")
        is_role = c == "K3" and m.get("role")
        if is_role:
            out.append(f"from cms_{mid}_K1 import {cname('K1', mid)}\n")      # the type argument of Role[...] is needed at class creation
        refs = sorted(({f["t"] for f in fields if f["t"] != "-" and f["t"] != c and f["t"] != base} | ({"K2"} if is_role else set()))
                      - ({"K1"} if is_role else set()))
        if refs:
            out.append("if TYPE_CHECKING:\n")
            for t in refs:
                out.append(f"    from cms_{mid}_{t} import {cname(t, mid)}\n")
        if base != "-" and m.get("u" + c[1]):
            out.append(f"\n\n@dataclass(eq=False)\nclass U{c[1]}_{mid}({cname(base, mid)}):\n    h{SUFFIX[c]}: int = 0\n")
            base_name = f"U{c[1]}_{mid}"
        else:
            base_name = cname(base, mid) if base != "-" else None
        if is_role:
            base_name = f"Role[{cname('K1', mid)}]"
        out.append("\n\n@dataclass(eq=False)\n")
        out.append(f"class {cname(c, mid)}" + (f"({base_name})" if base_name else "") + ":\n")
        if is_role:
            out.append(f"    rtc: {cname('K1', mid)}\n    rec: {cname('K2', mid)}\n")
        elif not fields:
            out.append("    pass\n")
        for i, f in enumerate(fields, 1):
            ann, default = annotation(f, mid)
            name = ("_" if f["k"] == "priv" else "") + f"f{i}{SUFFIX[c]}"
            out.append(f"    {name}: {ann} = {default}\n")
        mods[f"cms_{mid}_{c}"] = "".join(out)
    return mid, mods
