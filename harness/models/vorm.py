"""Generate (from the working tree's ORMatic) and import the SQLAlchemy layer of harness.models.vmodel."""
import importlib.util
import os
import sys
import tempfile

from sqlalchemy import JSON

from krrood.class_diagrams.class_diagram import ClassDiagram
from krrood.ormatic.ormatic import ORMatic
from harness.models import vmodel

_GEN = None


def interface():
    global _GEN
    if _GEN is not None:
        return _GEN
    from types import FunctionType
    from krrood.ormatic.alternative_mappings import FunctionMapping
    cd = ClassDiagram([vmodel.VA, vmodel.VB, vmodel.VC, vmodel.VW, vmodel.VM, vmodel.VN, vmodel.VX, vmodel.VY, FunctionType])
    orm = ORMatic(class_dependency_graph=cd, type_mappings={vmodel.VK: vmodel.VKType, vmodel.jsonmodel.A: JSON, vmodel.jsonmodel2.A: JSON}, alternative_mappings=[vmodel.VMMapping, vmodel.VXMapping, FunctionMapping])
    orm.make_all_tables()
    d = tempfile.mkdtemp(prefix="vorm_")
    path = os.path.join(d, "vmodel_orm.py")
    with open(path, "w") as f:
        orm.to_sqlalchemy_file(f)
    spec = importlib.util.spec_from_file_location("vmodel_orm", path)
    mod = importlib.util.module_from_spec(spec)
    sys.modules["vmodel_orm"] = mod
    spec.loader.exec_module(mod)
    mod.Base.registry.configure()
    mod.__source_path__ = path
    _GEN = mod
    return mod
