"""Generate (from the working tree's ORMatic) and import the SQLAlchemy layer of the sgmodel hierarchy Base <- Mid <- Leaf."""
import importlib.util
import os
import sys
import tempfile

from krrood.class_diagrams.class_diagram import ClassDiagram
from krrood.ormatic.ormatic import ORMatic
from harness.models import sgmodel

_GEN = None


def interface():
    global _GEN
    if _GEN is not None:
        return _GEN
    cd = ClassDiagram([sgmodel.Base, sgmodel.Mid, sgmodel.Leaf])
    orm = ORMatic(class_dependency_graph=cd)
    orm.make_all_tables()
    d = tempfile.mkdtemp(prefix="sgorm_")
    path = os.path.join(d, "sgmodel_orm.py")
    with open(path, "w") as f:
        orm.to_sqlalchemy_file(f)
    spec = importlib.util.spec_from_file_location("sgmodel_orm", path)
    mod = importlib.util.module_from_spec(spec)
    sys.modules["sgmodel_orm"] = mod
    spec.loader.exec_module(mod)
    mod.Base.registry.configure()
    import shutil
    shutil.rmtree(d, ignore_errors=True)
    _GEN = mod
    return mod
