"""C06 - ORMatic produces a valid, complete SQLAlchemy layer for every supported model (ClassModel.tla)."""
from harness.core import Ctx, replay, MachineryError


def main():
    ctx = Ctx("C06", "exploration")
    thorough = ctx.tier == "thorough"
    ctx.rule = ("TLC samples models of ClassModel.tla by seed (three dataclasses, optional single / two-level inheritance, up to 2 "
                "fields each over scalars, Optional scalars, enums, datetimes, lists of builtins, references, Optional references "
                "and list / set collections of each class of the model, private fields) with the expected schema. For each model "
                "the dataclass module is synthesised, ORMatic generates the SQLAlchemy module from the working tree (twice: bytes "
                "must be equal), the module is imported, mappers configured, the schema created on SQLite, one instance per class "
                "stored, and every mapper is inspected: base DAO, local columns with type and nullability, relationships with "
                "target and uselist. The generated text must also be the same from a second generator over one diagram object and after the "
                "model's modules were executed again (the same classes as new objects at other addresses). Non-trivial = a model with a relationship or inheritance; distinct by (model, class order).")
    cfg = "ClassModel_gen_c06t.cfg" if thorough else "ClassModel_gen_c06.cfg"
    models = [j for j in ctx.run_tlc("ClassModel", cfg, expect="ok", seed=ctx.seed + 11).json_lines() if isinstance(j, dict) and "schema" in j]
    if len(models) < 250:
        raise MachineryError(f"only {len(models)} models")
    cases = [{"mode": "orm", "m": m, "order": i % 6, "split": i % 2 == 1} for i, m in enumerate(models)]
    results = replay("classmodel", cases, timeout=3000)
    ctx.replayed = len(cases)
    for c, r in zip(cases, results):
        m = c["m"]
        key = [m["b2"], m["b3"], m["f1"], m["f2"], m["f3"], c["order"], c["split"]]
        nontrivial = any(m["schema"][k]["rels"] for k in m["schema"]) or m["b2"] != "-" or m["b3"] != "-"
        ctx.case(key, nontrivial, sample={"bases": [m["b2"], m["b3"]], "fields": [m["f1"], m["f2"], m["f3"]], "order": c["order"]})
        problems = []
        if r.get("error"):
            if m["own_type_collection"] and "DuplicateColumnError" in r["error"]:
                ctx.known_finding("C06-F10", {"model": key, "error": r["error"]})
                continue
            problems.append("exception " + r["error"])
        else:
            if r.get("foreign_imports"):
                problems.append(f"the generated module imports modules of other models generated earlier in the process: {r['foreign_imports'][:3]}")
            if not r.get("deterministic_over_one_diagram", True):
                problems.append("a second generator over the same diagram object generates another module than the first")
            if not r.get("deterministic_across_reload", True):
                problems.append("the same model loaded again (new class objects at other addresses) generates a differently ordered module")
            if not r["deterministic"]:
                problems.append("two generations of the same model differ (or calling make_all_tables() again changes the output)")
            for k in ("K1", "K2", "K3"):
                e, g = m["schema"][k], r["schema"][k]
                ec = sorted(e["cols"], key=lambda x: x["name"])
                er = sorted(e["rels"], key=lambda x: x["name"])
                if g is None:
                    problems.append(f"no DAO generated for {k}")
                    continue
                if g["base"] != e["base"]:
                    problems.append(f"{k}DAO inherits from {g['base']}, the class inherits from {e['base']}")
                if g["cols"] != ec:
                    problems.append(f"{k}DAO columns {g['cols']}, expected {ec}")
                if g["rels"] != er:
                    problems.append(f"{k}DAO relationships {g['rels']}, expected {er}")
        if problems:
            ctx.violation({"model": key, "observed": r, "problems": problems}, note="generated SQLAlchemy layer is invalid, incomplete or not deterministic")
    ctx.assumptions = ["field names are unique along every inheritance chain", "collections of classes outside the model, Dict fields and "
                       "nested wrappers are outside the supported grammar"]
    return ctx.finish()
