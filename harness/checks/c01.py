"""C01 - EQL answers are exactly the satisfying assignments (EQLCore.tla)."""
import json
from harness.core import Ctx, replay, MachineryError


def conditions(ctx, cfg, minimum):
    r = ctx.run_tlc("EQLCore", cfg, expect="ok", seed=ctx.seed + 1)
    conds = [j for j in r.json_lines() if isinstance(j, dict) and "cond" in j]
    if len(conds) < minimum:
        raise MachineryError(f"{cfg}: only {len(conds)} conditions")
    return conds


def size(e):
    return 1 + sum(size(x) for x in e[1:] if isinstance(x, list) and x and x[0] in ("and", "or", "not", "cmp", "in", "exists", "forall"))


QUANT = ("exists", "forall")


def has_q(e):
    return isinstance(e, list) and bool(e) and (e[0] in QUANT or any(has_q(x) for x in e[1:] if isinstance(x, list)))


def kvars(e):
    """Variable set as krrood sees it (a quantifier's bound variable counts)."""
    if not isinstance(e, list) or not e:
        return set()
    if e[0] in ("var", "attr", "attr2"):
        return {e[1]}
    if e[0] in QUANT:
        return {e[1]} | kvars(e[2])
    return set().union(*[kvars(x) for x in e[1:] if isinstance(x, list)])


def f05_signature(e):
    """Finding C01-F05: exists/for_all report only the bindings for which they hold. A Not node above a connective that
    contains a quantifier, or an else-if or_ (operands over the same variables) whose left operand contains a quantifier,
    depends on their reporting falsity."""
    k = e[0]
    if k == "not":
        f = e[1]
        if f[0] in QUANT:
            return False
        return has_q(f) or f05_signature(f)
    if k == "or":
        if kvars(e[1]) == kvars(e[2]) and has_q(e[1]):
            return True
        return f05_signature(e[1]) or f05_signature(e[2])
    if k == "and":
        return f05_signature(e[1]) or f05_signature(e[2])
    return False


def count_var(e, v, skip=None):
    """Occurrences of variable v in e, not counting the subtree `skip`."""
    if e is skip or not isinstance(e, list) or not e:
        return 0
    if e[0] in ("var", "attr", "attr2"):
        return 1 if e[1] == v else 0
    return sum(count_var(x, v, skip) for x in e[1:] if isinstance(x, list))


def exists_nodes(e, neg=False):
    """(node, variable, body) of every existential in e; not_(for_all(v, c)) is rewritten by krrood into exists(v, not c)."""
    if not isinstance(e, list) or not e:
        return
    if e[0] == "exists":
        yield e, e[1], e[2]
    if e[0] == "not" and isinstance(e[1], list) and e[1] and e[1][0] == "forall":
        yield e, e[1][1], e[1][2]
    for x in e[1:]:
        if isinstance(x, list):
            yield from exists_nodes(x)


def bound_before(root, node):
    """Variables that are certainly bound when `node` is evaluated: those of quantifier-free left operands of the and_ nodes on
    the path from the root to the node."""
    if root is node or not isinstance(root, list) or not root:
        return set()
    if root[0] == "and":
        if contains_node(root[2], node):
            left = kvars(root[1]) if not has_q(root[1]) else set()
            return left | bound_before(root[2], node)
        if contains_node(root[1], node):
            return bound_before(root[1], node)
    for x in root[1:]:
        if isinstance(x, list) and contains_node(x, node):
            return bound_before(x, node) if root[0] == "and" else set()
    return set()


def contains_node(e, node):
    return e is node or (isinstance(e, list) and any(contains_node(x, node) for x in e[1:] if isinstance(x, list)))


def f04_signature(cond, sel):
    """Finding C01-F04: exists(v, c) reports one result per value of v and keeps only the first witness of the other variables
    of c. Rows get lost when v is not selected, or when another variable of c is selected or needed elsewhere and is not already
    bound when the exists is evaluated."""
    for node, v, body in exists_nodes(cond):
        if v not in sel:
            return True
        bound = bound_before(cond, node)
        for w in ("x", "y"):
            if w != v and count_var(body, w) and w not in bound and (w in sel or count_var(cond, w, skip=node)):
                return True
    return False


def exists_under_negation(e, neg=False):
    """not_ over exists(v, ...) has no settled reading when v is selected (first-order: v is bound; krrood: for_all(v, not c))."""
    if not isinstance(e, list) or not e:
        return False
    if e[0] == "exists" and neg:
        return True
    if e[0] == "not":
        return exists_under_negation(e[1], True)
    return any(exists_under_negation(x, neg) for x in e[1:] if isinstance(x, list))


def main():
    ctx = Ctx("C01", "model_checking")
    thorough = ctx.tier == "thorough"
    ctx.rule = ("TLC enumerates every and/or/not tree of depth <= 2 over the 4-atom 'logic' vocabulary (attribute vs literal on x "
                "and on y, attribute vs attribute across variables, membership of x in y.items) and seeded random subsets of the "
                "6-atom 'logic6' and the 'access' vocabulary (attribute chains x.ref.a, object-valued comparisons, x != y), each "
                "with the reference Answers for every assignment of {empty, singleton, complete} domains to x and y and every "
                "selection (x | y | x,y) that the statement settles; EQLFlat.tla adds 184 conditions over f = flatten(y.items), EQLTerms.tla 1388 over indexing, method calls, a nested query used as a variable and bare truth-valued attributes; every case is built with the public API (entity / set_of, "
                "in_ / contains alternating) and evaluated (every fifth condition on a world whose objects are falsy Python objects); result rows are compared as sets. Non-trivial = a condition with at "
                "least one connective and a case with a non-empty expected set; distinct by (condition, domains, selection).")
    # layer I => R on the model (the pipeline returns exactly the satisfying rows), reference sanity, non-vacuity
    ctx.run_tlc("EQLCore", "EQLCore_mc_logic.cfg" if thorough else "EQLCore_mc_logic_q.cfg", expect="ok", seed=ctx.seed + 1)
    if thorough:
        ctx.run_tlc("EQLCore", "EQLCore_mc_access.cfg", expect="ok", seed=ctx.seed + 1)
    ctx.run_tlc("EQLCore", "EQLCore_sw_NegUnionFlipsEach.cfg", expect="violation")
    ctx.run_tlc("EQLCore", "EQLCore_sw_OperandTruthFilter.cfg", expect="violation")
    ctx.run_tlc("EQLCore", "EQLCore_sw_NegNestedUnionFlips.cfg", expect="violation", seed=1)
    if thorough:
        ctx.run_tlc("EQLCore", "EQLCore_mc_logic_d3.cfg", expect="ok", seed=ctx.seed + 1)
    fams = [("logic", "EQLCore_gen_logic.cfg", 3000), ("logic6", "EQLCore_gen_logic6.cfg" if thorough else "EQLCore_gen_logic6_q.cfg", 400),
            ("access", "EQLCore_gen_access.cfg" if thorough else "EQLCore_gen_access_q.cfg", 400)]
    fams.append(("quant", "EQLCore_gen_quant.cfg" if thorough else "EQLCore_gen_quant_q.cfg", 400))
    fams.append(("quant", "EQLCore_gen_quant_d1.cfg", 100))          # every quantifier condition of depth 1
    fams.append(("poset", "EQLCore_gen_poset.cfg" if thorough else "EQLCore_gen_poset_q.cfg", 350))
    fams.append(("optional", "EQLCore_gen_optional.cfg" if thorough else "EQLCore_gen_optional_q.cfg", 200))    # an Optional attribute holding None
    fams.append(("logic_d3", "EQLCore_gen_logic_d3.cfg" if thorough else "EQLCore_gen_logic_d3_q.cfg", 2000 if thorough else 250))
    if thorough:
        for fam in ("access", "logic6", "poset"):
            fams.append((fam, f"EQLCore_gen_{fam}_d3.cfg", 1000))        # depth 3 in the other vocabularies
    cases = []
    for fam, cfg, minimum in fams:
        for i, c in enumerate(conditions(ctx, cfg, minimum)):
            c["variant"] = i % 6
            c["family"] = fam
            c["reeval"] = fam != "quant" and i % 3 == 0        # every third condition is evaluated again after an in-place edit
            c["falsy"] = i % 5 == 4                            # every fifth condition runs on a world of falsy objects
            cases.append(c)
    # flattened collection attribute (EQLFlat.tla): f = flatten(y.items) as a derived variable
    flat = [j for j in ctx.run_tlc("EQLFlat", "EQLFlat_gen.cfg", expect="ok").json_lines() if isinstance(j, dict) and "cond" in j]
    if len(flat) != 184:
        raise MachineryError(f"EQLFlat_gen: expected 184 conditions, got {len(flat)}")
    for i, j in enumerate(flat):
        cs = [{"dom": {"x": c["dx"], "y": c["dy"], "__flat__": True}, "sel": c["sel"], "exp": c["exp"]} for c in j["cases"]]
        if not thorough:
            cs = cs[i % 3::3]
        cases.append({"cond": j["cond"], "cases": cs, "variant": i % 6, "family": "flat", "reeval": False, "falsy": i % 5 == 4})
    # derived terms (EQLTerms.tla): indexing, method calls with and without arguments, a nested query used as a variable
    terms = [j for j in ctx.run_tlc("EQLTerms", "EQLTerms_gen.cfg", expect="ok").json_lines() if isinstance(j, dict) and "cond" in j]
    if len(terms) != 1388:
        raise MachineryError(f"EQLTerms_gen: expected 1388 conditions, got {len(terms)}")
    for i, j in enumerate(terms):
        cs = [{"dom": {"x": c["dx"], "y": c["dy"], "__terms__": True}, "sel": c["sel"], "exp": c["exp"]} for c in j["cases"]]
        if not thorough:
            cs = cs[i % 3::3]
        cases.append({"cond": j["cond"], "cases": cs, "variant": i % 6, "family": "terms", "reeval": False, "falsy": i % 5 == 4})
    results = replay("eql", cases)
    ctx.replayed = sum(len(c["cases"]) for c in cases)
    unsettled = 0
    for c, r in zip(cases, results):
        if c["family"] == "quant" and exists_under_negation(c["cond"]):
            unsettled += 1
            continue
        for k, (cs, rows, err) in enumerate(zip(c["cases"], r["rows"], r["errors"])):
            r2 = r["rows2"][k] if r.get("rows2") else None
            # finding F02: a selected attribute expression of a variable that no condition binds is enumerated independently
            # (when the satisfied branch of the condition leaves the variable unbound): only EXTRA rows, the consistent ones are all there
            f02 = "x.a" in cs["sel"]
            if r2 is not None:
                exp2 = {tuple(x) for x in cs["exp2"]}
                got2 = {tuple(x) for x in r2} if isinstance(r2, list) else r2
                if got2 != exp2 and f02 and isinstance(got2, set) and exp2 <= got2:
                    ctx.known_finding("C01-F02", {"cond": c["cond"], "dom": cs["dom"], "sel": cs["sel"], "after_edit": True})
                elif got2 != exp2:
                    ctx.violation({"family": c["family"], "cond": c["cond"], "dom": cs["dom"], "sel": cs["sel"], "variant": c["variant"],
                                   "expected_after_edit": sorted(exp2), "observed_after_edit": sorted(got2) if isinstance(got2, set) else got2},
                                  note="the same query object, evaluated again after an in-place edit of attribute values (o1.a := 1, o4.b := 0), "
                                       "does not return the satisfying assignments of the edited world")
            exp = {tuple(x) for x in cs["exp"]}
            got = {tuple(x) for x in rows}
            key = [c["cond"], cs["dom"], cs["sel"]]
            ctx.case(key, size(c["cond"]) > 1 and bool(exp),
                     sample={"family": c["family"], "cond": c["cond"], "dom": cs["dom"], "sel": cs["sel"], "expected": sorted(exp),
                             "observed": sorted(got)})
            if not err and f02 and exp < got:
                ctx.known_finding("C01-F02", {"cond": c["cond"], "dom": cs["dom"], "sel": cs["sel"], "extra": sorted(got - exp)})
                continue
            if not err and exp != got and c["family"] == "terms" and '"pair"], ["tlit"' in json.dumps(c["cond"]) + json.dumps(c["cond"]).replace('"pair"], ["attr", "y", "pair"]', '"pair"], ["tlit"'):
                # signature (finding F37): == / != between two collection values compares them as SETS
                ctx.known_finding("C01-F37", {"cond": c["cond"], "dom": cs["dom"], "sel": cs["sel"], "missing": sorted(exp - got), "extra": sorted(got - exp)})
                continue
            if (err or exp != got) and c["family"] == "quant" and '["forall", "y", ["or"' in json.dumps(c["cond"]) \
                    and not (c["cond"][0] == "and" and c["cond"][1][0] == "cmp" and c["cond"][2][0] == "forall"):
                # signature (finding F38): a union-form or_ inside a for_all whose outer variable is not yet bound by a comparison
                # written before it (and_(cmp, for_all(...)) must be right)
                ctx.known_finding("C01-F38", {"cond": c["cond"], "dom": cs["dom"], "sel": cs["sel"], "error": err,
                                              "missing": sorted(exp - got), "extra": sorted(got - exp)})
                continue
            missing_only = not err and exp != got and not (got - exp) and c["family"] == "quant"
            if missing_only and f04_signature(c["cond"], cs["sel"]):
                ctx.known_finding("C01-F04", {"cond": c["cond"], "dom": cs["dom"], "missing": sorted(exp - got)})
            elif missing_only and f05_signature(c["cond"]):
                ctx.known_finding("C01-F05", {"cond": c["cond"], "dom": cs["dom"], "missing": sorted(exp - got)})
            elif err or exp != got:
                ctx.violation({"family": c["family"], "cond": c["cond"], "dom": cs["dom"], "sel": cs["sel"], "variant": c["variant"],
                               "falsy_objects": c["falsy"], "expected": sorted(exp), "observed": sorted(got), "error": err,
                               "missing": sorted(exp - got), "extra": sorted(got - exp)},
                              note="rows returned differ from the satisfying assignments")
    ctx.cov["conditions"] = len(cases)
    ctx.cov["conditions_skipped_exists_under_negation"] = unsettled
    ctx.exhaustive = False
    ctx.assumptions = ["outside the conjunctive / else-if fragment, cases in which a condition variable has an empty domain are "
                       "not generated (strict vs short-circuit reading not settled by the statement)",
                       "each occurrence of an atom is a fresh expression node (node reuse is covered by C03)"]
    return ctx.finish()
