"""C03 - evaluations are repeatable and do not interfere with each other (IterSched.tla)."""
from harness.core import Ctx, replay, MachineryError

FAMILIES_COLD = ["same", "shared_var", "setof", "shared_cond", "independent"]
FAMILIES_WARM = ["same", "shared_var", "setof", "shared_cond", "exists", "independent"]
RULES = ["rule_refine", "rule_alt", "rule_next", "rule_grow"]


def expected_alone(h, alone):
    """The observation sequence in which every evaluation returns what a fresh identical query returns when it runs alone."""
    cnt, out = {}, []
    for s in h:
        if s["a"] in ("start", "restart"):
            cnt[s["i"]] = 0
            out.append("-")
        elif s["a"] == "abandon":
            out.append("-")
        else:
            k = cnt[s["i"]]
            seq = alone[str(s["i"])]
            out.append(seq[k] if k < len(seq) else "stop")
            cnt[s["i"]] = k + 1
    return out


def sequential(h):
    """No two evaluations are RUNNING at the same time: an evaluation runs from its first next() to its end or abandonment
    (obtaining an iterator with evaluate() does not start it)."""
    running = set()
    for s in h:
        if s["a"] == "next":
            if s["o"] in ("stop", "RuntimeError"):
                running.discard(s["i"])
            else:
                if running - {s["i"]}:
                    return False
                running.add(s["i"])
        elif s["a"] in ("abandon", "restart"):
            running.discard(s["i"])
    return True


def main():
    ctx = Ctx("C03", "model_checking")
    thorough = ctx.tier == "thorough"
    ctx.rule = ("TLC enumerates every schedule (start / next / abandon / restart) of two evaluations over one 3-element domain, "
                "8 steps, cold (one-shot generator domain) and warm (domain cached by an earlier complete evaluation), and samples "
                "14-step schedules over 4 elements by seeded simulation; each schedule carries the prediction of the "
                "as-implemented protocol. Every schedule is stepped with next() on real iterators in six query families (same "
                "query twice, two queries sharing a variable, set_of, a shared condition node, an exists query, a shared attribute node used once for its value and once as a condition, "
                "independent variables, a variable whose domain is empty after the type filter (IterSched with N = 0)) and, for sequential schedules, four rule-query families (one of them extended by a refinement after a first evaluation); each returned value is compared with what "
                "the evaluation returns when run alone. Non-trivial = a schedule in which two evaluations are live at once or one "
                "is restarted; distinct by (family, warm, schedule).")
    n_mc = ctx.run_tlc("IterSched", "IterSched_mc.cfg", expect="ok")
    ctx.run_tlc("IterSched", "IterSched_mc_warm.cfg", expect="ok")
    ctx.run_tlc("IterSched", "IterSched_sw_SharedDrain.cfg", expect="violation")
    cold = [j["h"] for j in ctx.run_tlc("IterSched", "IterSched_gen_cold.cfg", expect="ok").json_lines() if isinstance(j, dict)]
    warm = [j["h"] for j in ctx.run_tlc("IterSched", "IterSched_gen_warm.cfg", expect="ok").json_lines() if isinstance(j, dict)]
    if len(cold) < 3000 or len(warm) < 3000:
        raise MachineryError("IterSched generator configs produced too few schedules")
    sim = ctx.run_tlc("IterSched", "IterSched_sim.cfg", expect=None, simulate=f"num={2000 if thorough else 300}", depth=20,
                      seed=ctx.seed + 3, workers=8)
    if sim.error:
        raise MachineryError("IterSched_sim: " + sim.error)
    deep = list({repr(j["h"]): j["h"] for j in sim.json_lines() if isinstance(j, dict)}.values())
    ctx.cov["schedules"] = {"cold_8_steps": len(cold), "warm_8_steps": len(warm), "cold_14_steps_sampled": len(deep)}
    cases = []
    step = 1 if thorough else 3
    for fams, hs, w, n in ((FAMILIES_COLD, cold, False, 3), (FAMILIES_WARM, warm, True, 3), (FAMILIES_COLD, deep, False, 4)):
        for k, fam in enumerate(fams):
            for h in hs[k % step::step]:
                cases.append({"family": fam, "n": n, "warm": w, "h": h})
    for k, h in enumerate(warm[::step]):
        cases.append({"family": "bare_var", "n": 4, "warm": True, "h": h})
    for k, h in enumerate(warm[1::step]):
        cases.append({"family": "shared_mapping", "n": 4, "warm": True, "h": h})
    for k, h in enumerate(cold[2::step * 2]):
        cases.append({"family": "shared_mapping", "n": 4, "warm": False, "h": h})
    for k, h in enumerate(warm[2::step * 3]):
        cases.append({"family": "shared_mapping_root", "n": 4, "warm": True, "h": h})
    # N = 0: a domain that is empty after the type filter; every evaluation (also a repeated one, also of the other query) stops at once
    empty = [j["h"] for j in ctx.run_tlc("IterSched", "IterSched_gen_empty.cfg", expect="ok").json_lines() if isinstance(j, dict)]
    if len(empty) < 100:
        raise MachineryError("IterSched_gen_empty produced too few schedules")
    ctx.cov["schedules"]["empty_domain_6_steps"] = len(empty)
    for w in (False, True):
        for h in empty[::1 if thorough else 2]:
            cases.append({"family": "empty", "n": 0, "warm": w, "h": h})
    seq = [h for h in cold if sequential(h)]
    for k, fam in enumerate(RULES):
        for h in seq[k % step::step]:
            cases.append({"family": fam, "n": 3, "warm": False, "h": h})
    results = replay("itersched", cases)
    ctx.replayed = len(cases)
    for c, r in zip(cases, results):
        alone = expected_alone(c["h"], r["alone"])
        asis = [s["o"] for s in c["h"]]
        obs = r["obs"]
        key = [c["family"], c["warm"], [(s["i"], s["a"]) for s in c["h"]]]
        nontrivial = (not sequential(c["h"])) or any(s["a"] == "restart" for s in c["h"])
        ctx.case(key, nontrivial, sample={"family": c["family"], "warm": c["warm"], "schedule": [(s["i"], s["a"]) for s in c["h"]],
                                          "observed": obs, "alone": alone})
        if obs == alone:
            continue
        first = next(i for i, (a, b) in enumerate(zip(obs, alone)) if a != b)
        info = {"family": c["family"], "warm": c["warm"], "n": c["n"], "schedule": c["h"], "observed": obs, "alone": alone,
                "first_divergence": first}
        if c["family"] == "shared_mapping_root" or (c["family"] == "shared_mapping" and not sequential(c["h"])):
            # signature (finding F34): a shared attribute node that is the SOLE condition of the second query, or two evaluations
            # over the shared node RUNNING at the same time; sequential schedules of the and-form must be right
            ctx.known_finding("C03-F34", info)
        elif obs == asis and not c["family"].startswith("rule") and c["family"] != "independent":
            ctx.known_finding("C03-F06", info)          # exactly what the as-implemented protocol (SharedDrain) predicts
        else:
            ctx.violation(info, note="an evaluation returned something else than it returns when run alone "
                                     "(and not what the recorded as-implemented protocol predicts)")
    ctx.assumptions = ["every query of the families lets every domain element through, so the reference sequence is the domain order",
                       "rule queries are checked on sequential schedules only (interleaved rule evaluations share selector state)"]
    return ctx.finish()
