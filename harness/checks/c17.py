"""C17 - class diagrams mirror the Python classes and derived views leave them intact (ClassModel.tla)."""
from harness.core import Ctx, replay, MachineryError

OPS = ["subdiagram", "subdiagram_named", "associations", "out_edges", "assoc_cond", "role_taker", "sub_query_first", "orig_query_first"]


def main():
    ctx = Ctx("C17", "exploration")
    thorough = ctx.tier == "thorough"
    ctx.rule = ("TLC samples models of ClassModel.tla by seed: three dataclasses with optional single / two-level inheritance and up "
                "to 2 fields each over 17 field kinds (builtins, Optional, enum, datetime, list of builtins, bare / Optional / "
                "List / Set / Sequence / Type references to each class of the model, private fields, references to outside "
                "classes), annotations as forward references (modules with the __future__ import, split modules with TYPE_CHECKING imports, and modules "
                "without the __future__ import whose wrappers contain string forward references), with the expected diagram (nodes, direct-base inheritance "
                "edges, association edges incl. inherited fields) and the classification each annotation dictates. Each model is "
                "synthesised as a module, ClassDiagram is built in one of the 6 class orders and in another one, every field's "
                "predicates are read, and a sequence of 3 read-only operations is applied with a snapshot before/after (after a view was derived, "
                "the original's class lookup must still hand out its own nodes, the objects its edges start from). "
                "Non-trivial = a model with at least one association or inheritance edge; distinct by (model, order, operations).")
    cfg = "ClassModel_gen_c17t.cfg" if thorough else "ClassModel_gen_c17.cfg"
    models = [j for j in ctx.run_tlc("ClassModel", cfg, expect="ok", seed=ctx.seed + 7).json_lines() if isinstance(j, dict) and "diagram" in j]
    if len(models) < 500:
        raise MachineryError(f"only {len(models)} models")
    cases = []
    for i, m in enumerate(models):
        ops = [OPS[(i + k * 5) % len(OPS)] for k in range(3)]
        if i % 4 == 3:
            ops[0] = OPS[6 + (i // 4) % 2]       # the derived view / the original queried first, before anything else was asked
        cases.append({"mode": "diagram", "m": m, "order": i % 6, "ops": ops, "split": (False, True, "nofuture")[i % 3]})
    results = replay("classmodel", cases)
    ctx.replayed = len(cases)
    for c, r in zip(cases, results):
        m = c["m"]
        key = [m["b2"], m["b3"], m["f1"], m["f2"], m["f3"], c["order"], c["ops"], c["split"]]
        exp_in = sorted(map(list, m["diagram"]["inherit"]))
        exp_as = sorted(map(list, m["diagram"]["assoc"]))
        ctx.case(key, bool(exp_in or exp_as), sample={"bases": [m["b2"], m["b3"]], "fields": [m["f1"], m["f2"], m["f3"]],
                                                      "order": c["order"], "ops": c["ops"], "expected_assoc": exp_as})
        problems = []
        if r.get("error"):
            problems.append("exception " + r["error"])
        else:
            d = r["diagram"]
            if d["nodes"] != ["K1", "K2", "K3"]:
                problems.append(f"nodes {d['nodes']}")
            if d["inherit"] != exp_in:
                problems.append(f"inheritance edges {d['inherit']}, the classes say {exp_in}")
            if d["assoc"] != exp_as:
                problems.append(f"association edges {d['assoc']}, the annotations say {exp_as}")
            if r["diagram_other_order"] != d:
                problems.append("the diagram depends on the order in which the classes are given")
            got = {(f["c"], f["name"]): f["flags"] for f in r["fields"]}
            for f in m["fields"]:
                g = got.get((f["c"], f["name"]))
                if g is None:
                    if f["kind"] != "priv":      # private fields need not be wrapped at all
                        problems.append(f"field {f['c']}.{f['name']} not found")
                    continue
                for flag, want in f["flags"].items():
                    if want and not g[flag]:       # only the positive component an annotation dictates is asserted
                        problems.append(f"{f['c']}.{f['name']} ({f['kind']}) is not classified as {flag}")
            if r["before"] != r["after"]:
                problems.append(f"read-only operations {c['ops']} changed the diagram: {r['before']} -> {r['after']}")
            for op in r["ops"]:
                if isinstance(op[1], str) and "Error" in op[1]:
                    problems.append(f"operation {op[0]} raised {op[1]}")
                elif op[0] in ("sub_query_first", "orig_query_first"):
                    q = op[1]
                    if q["orig_asked"] != q["orig_edges"]:
                        problems.append(f"{op[0]}: asking the diagram class by class gives {q['orig_asked']}, its edge list says {q['orig_edges']}")
                    if not q["orig_lookup_hands_out_own_nodes"] or q["orig_edges_by_lookup"] != q["orig_edges"]:
                        problems.append(f"{op[0]}: after a view was derived, get_wrapped_class of the original hands out objects that are not its "
                                        f"nodes / its edges found through the lookup are {q['orig_edges_by_lookup']}, its edge list says {q['orig_edges']}")
                    if q["sub_asked"] != q["sub_edges"]:
                        problems.append(f"{op[0]}: asking the derived diagram class by class gives {q['sub_asked']}, its edge list says {q['sub_edges']}")
                elif op[0] in ("subdiagram", "subdiagram_named") and not m["parallel"]:
                    want = sorted(map(list, m["sub" if op[0] == "subdiagram" else "sub_named"]))
                    if op[1] != want:
                        # the CONTENT of the derived view is not part of the property (only that the source stays intact):
                        # recorded as model drift, never a verdict (known: parallel inheritance + association edges between
                        # the same two classes hide the inherited association from the derivation)
                        ctx.drift += 1
            if "diagram_reloaded_k1" in r and r["diagram_reloaded_k1"]["assoc"] != exp_as:
                problems.append(f"a diagram over a reloaded K1 and the same K2/K3 has associations {r['diagram_reloaded_k1']['assoc']}, "
                                f"expected {exp_as}")
        if problems:
            ctx.violation({"model": key, "observed": r, "problems": problems}, note="diagram differs from the classes, or a derived view changed it")
    ctx.assumptions = ["one wrapper level per annotation (nested wrappers are outside the documented grammar)",
                       "only the positive classification an annotation dictates is asserted (the code's flags overlap)"]
    return ctx.finish()
