"""C04 - object -> DAO -> object round trip preserves structure, types and aliasing (ObjGraph.tla)."""
from harness.core import Ctx, replay, MachineryError


def heaps(ctx, thorough, minimum=3000):
    cfg = "ObjGraph_gen.cfg" if thorough else "ObjGraph_gen_q.cfg"
    hs = [j for j in ctx.run_tlc("ObjGraph", cfg, expect="ok", seed=ctx.seed + 2, timeout=1500).json_lines() if isinstance(j, dict) and "rec" in j]
    if len(hs) < minimum:
        raise MachineryError(f"only {len(hs)} heaps")
    return hs


def edges(h):
    return sum((1 if r[f] else 0) for r in h["rec"] for f in ("one", "other", "back", "m", "ref")) + sum(len(r[f]) for r in h["rec"] for f in ("many", "peers"))


def main():
    ctx = Ctx("C04", "model_checking")
    thorough = ctx.tier == "thorough"
    ctx.rule = ("TLC enumerates (thorough: all 66 978; quick: a seeded sample of ~11 900) the heaps of three objects over the mapped "
                "model A, B<:A, C, alternatively mapped M with single / optional / list references (self references, 2- and "
                "3-cycles, diamonds, aliasing inside one list and across lists, None, empty lists, a subclass instance in a "
                "base-typed field, the alternatively mapped object inside a cycle) and every root, with the prediction of the "
                "from_dao model; each heap is instantiated on the generated ORM layer of harness/models/vmodel.py, converted with "
                "to_dao and back with from_dao and compared by a lock-step isomorphism walk (classes, scalars incl. enum / "
                "datetime / list of builtins / custom typed value, list order, sharing). Non-trivial = a heap with at least two "
                "references reachable from the root; distinct by (heap, root).")
    ctx.run_tlc("ObjGraph", "ObjGraph_mc.cfg", expect="ok", timeout=1500)
    ctx.run_tlc("ObjGraph", "ObjGraph_sw_PlaceholderLeak.cfg", expect="violation")
    hs = heaps(ctx, thorough)
    cases = [dict(h, mode="c04", falsy=(i % 5 == 4)) for i, h in enumerate(hs)]      # every fifth heap consists of falsy objects
    results = replay("objgraph", cases)
    ctx.replayed = len(cases)
    for h, r in zip(hs, results):
        key = [h["cls"], h["rec"], h["root"]]
        ctx.case(key, len(h["reach"]) >= 2 and edges(h) >= 2, sample={"classes": h["cls"], "objects": h["rec"], "root": h["root"],
                                                                     "observed": r})
        bad = r.get("error") or r.get("diff")
        if not bad and r.get("same_dao_with_shared_state") is False:
            bad = "to_dao with a shared ToDAOState returned two different DAOs for one object"
        if not bad and r.get("diff_long_lived_state") and not h["leaks"]:
            bad = "with one ToDAOState used across many conversions: " + r["diff_long_lived_state"]
        if not bad:
            continue
        if h["leaks"] and r.get("diff"):
            ctx.known_finding("C04-F08", {"heap": key, "diff": r["diff"]})      # exactly where the from_dao model predicts the leak
        else:
            ctx.violation({"heap": key, "observed": r, "model_predicts_leak": h["leaks"]},
                          note="round trip through the DAO layer is not an isomorphism")
    ctx.exhaustive = thorough
    ctx.assumptions = ["scalars are compared with == and exact type", "field order of the model = order in which the mapper lists relationships"]
    return ctx.finish()
