"""C10 - queries are lazy: building evaluates nothing, consuming pulls only what it needs (Laziness.tla)."""
from harness.core import Ctx, replay, validate_traces, MachineryError
from harness.checks.c01 import conditions, size

F16 = (["pred", "x"], ["fun", "x"], ["true"],
       ["and", ["pred", "x"], ["cmp", "eq", ["attr", "x", "b"], ["lit", 0]]],
       ["and", ["cmp", "eq", ["attr", "x", "b"], ["lit", 0]], ["fun", "x"]])


def uses_f16(e):
    return isinstance(e, list) and bool(e) and (e[0] in ("pred", "fun", "true") or any(uses_f16(x) for x in e[1:]))


def main():
    ctx = Ctx("C10", "exploration")
    thorough = ctx.tier == "thorough"
    ctx.rule = ("Query shapes = the conjunctive / else-if fragment conditions of EQLCore.tla (logic family exhaustive to depth 2, "
                "logic6/access sampled), plus predicate / symbolic-function / condition-free queries, rule trees (also with a refinement that introduces a variable of its own), method-call operands and match patterns with a variable as keyword value; every "
                "variable ranges over a 7-element logging one-shot generator, attributes are logging properties. For each shape "
                "and k = 1..3 a fresh query is built (construction must log nothing), k results are pulled, and the pulled "
                "prefixes are validated by TLC against Laziness.tla: some loop order of a demand-driven nested loop must justify "
                "them with a look-ahead of one element; the first k results must be a prefix of the full result sequence. "
                "Non-trivial = an observation where at least one domain need not be exhausted; distinct by (shape, k).")
    fams = [("logic", "EQLCore_gen_logic.cfg", 3000), ("access", "EQLCore_gen_access.cfg" if thorough else "EQLCore_gen_access_q.cfg", 400)]
    if thorough:
        fams.append(("logic6", "EQLCore_gen_logic6.cfg", 400))
    cases = []
    for fam, cfg, minimum in fams:
        # conditions over y alone are the mirror image of those over x alone (and would leave the selected x unconstrained)
        cs = [c for c in conditions(ctx, cfg, minimum) if c["frag"] and '"x"' in __import__("json").dumps(c["cond"])]
        if not thorough:
            cs = cs[:: max(1, len(cs) // 250)]
        for c in cs:
            cases.append({"cond": c["cond"], "ks": [1, 2, 3], "family": fam})
    for j, c in enumerate(list(cases)[::5]):
        cases.append({"cond": c["cond"], "ks": [1, 2], "form": ("atmost", "atleast", "range")[j % 3], "family": "quantified"})
    for c in F16:
        cases.append({"cond": c, "ks": [1, 2, 3], "family": "f16"})
    for c in cases[:40]:
        if c["family"] != "f16" and "y" not in repr(c["cond"]):
            cases.append({"cond": c["cond"], "ks": [1, 2], "form": "rule", "family": "rule"})
    # match patterns whose keyword value is itself a variable over a lazily produced domain of groups
    for kind in ("ref", "scalar"):
        cases.append({"cond": ["match", kind], "ks": [1, 2, 3, 4], "family": "match"})
    # a rule whose refinement condition introduces a variable of its own over a lazily produced domain
    for c in (["cmp", "ge", ["attr", "x", "b"], ["lit", 0]], ["cmp", "eq", ["attr", "x", "a"], ["lit", 1]]):
        cases.append({"cond": c, "ks": [1, 2, 5], "form": "rule_newvar", "family": "rule"})
    # a method call on a not yet bound variable as the operand of a comparison
    for c in (["cmp", "eq", ["attr", "x", "a"], ["call", "y", "get_b"]],
              ["and", ["cmp", "ge", ["attr", "x", "b"], ["lit", 0]], ["cmp", "lt", ["attr", "x", "a"], ["call", "y", "get_b"]]],
              ["cmp", "ne", ["call", "y", "get_b"], ["attr", "x", "b"]]):
        cases.append({"cond": c, "ks": [1, 2, 3], "family": "call"})
    # universal conditions: for_all(y, c) over a lazily produced y - decided per tried x up to the first counter-example
    fa = lambda c: ["forall", "y", c]
    A = lambda v, f: ["attr", v, f]
    lit = lambda n: ["lit", n]
    for c in (["or", ["cmp", "eq", A("x", "a"), lit(1)], fa(["cmp", "lt", A("y", "b"), A("x", "b")])],
              fa(["cmp", "lt", A("y", "b"), A("x", "b")]),
              ["and", ["cmp", "eq", A("x", "a"), lit(1)], fa(["cmp", "ge", A("y", "b"), A("x", "b")])],
              fa(["or", ["cmp", "eq", A("y", "b"), lit(0)], ["cmp", "eq", A("x", "b"), lit(1)]]),
              ["and", ["cmp", "eq", A("x", "b"), lit(1)], fa(["cmp", "lt", A("y", "a"), A("x", "a")])],
              ["or", ["cmp", "eq", A("x", "b"), lit(1)], fa(["cmp", "ne", A("y", "a"), A("x", "b")])]):
        cases.append({"cond": c, "ks": [1, 2, 3], "family": "forall"})
    cases.append({"build_only": True, "cond": ["build_only"], "family": "build"})
    results = replay("lazy", cases)
    traces, meta = [], {}
    for i, (c, r) in enumerate(zip(cases, results)):
        if "build_only" in r:
            ctx.case(["construction of every expression kind"], True, sample={"touched": r["build_only"]})
            if r["build_only"]:
                ctx.violation({"construction_touched_user_data": r["build_only"]},
                              note="constructing an expression read an attribute, called a method or advanced a domain iterator")
            continue
        if r.get("error"):
            # the uninstrumented reference evaluation failed: nothing to compare (C01's business)
            continue
        for o in r["obs"]:
            name = f"q{i}k{o['k']}"
            meta[name] = (c, r, o)
            traces.append({"name": name, "n": o["n"], "sat": r["sat"], "k": o["k"], "pulls": o["pulls"], "build": o["build"],
                           "got": o["got"]})
            if "fa" in r:
                traces[-1]["fa"] = r["fa"]
    v = validate_traces(ctx, "Laziness", "Laziness_Trace.cfg", traces)
    ctx.traces = len(traces)
    for name, (c, r, o) in meta.items():
        verdict = v[name]["v"]
        full = r["full"]
        need_all = len(r["sat"]) < o["k"]
        key = [c["cond"], c.get("form", "query"), o["k"]]
        ctx.case(key, not need_all, sample={"cond": c["cond"], "form": c.get("form", "query"), "k": o["k"], "domain_lengths": o["n"],
                                            "pulled": o["pulls"], "satisfying_pairs": len(r["sat"]), "verdict": verdict})
        problems = []
        if o["error"]:
            problems.append("exception " + o["error"])
        if o["first"] != full[: len(o["first"])] or o["got"] != min(o["k"], len(full)):
            problems.append(f"first {o['k']} results {o['first']} are not a prefix of the full sequence {full[:4]}...")
        if verdict != "accepted":
            problems.append(verdict)
        if not c.get("form", "query").startswith("rule") and o["again"] != full:
            problems.append(f"evaluating the same query again after the abandoned evaluation gave {str(o['again'])[:120]}, expected the full sequence {full[:4]}...")
        if not problems:
            continue
        info = {"cond": c["cond"], "form": c.get("form", "query"), "k": o["k"], "pulled": o["pulls"], "domain_lengths": o["n"],
                "satisfying_pairs": r["sat"], "build_events": o["build"], "problems": problems}
        if problems == [verdict] and verdict.startswith("prop:C10 eager") and uses_f16(c["cond"]):
            ctx.known_finding("C10-F16", info)
        else:
            ctx.violation(info, note="construction touched user data, or more of a lazily produced domain was consumed than any demand-driven evaluation needs")
    ctx.cov["shapes"] = len(cases)
    ctx.assumptions = ["any loop order is accepted; look-ahead bound 1 element per domain",
                       "the satisfying pairs come from an uninstrumented evaluation of the same query over list domains"]
    return ctx.finish()
