"""C12 - predicates and symbolic functions agree between concrete and symbolic calls (CallShape.tla)."""
from harness.core import Ctx, replay, MachineryError


def main():
    ctx = Ctx("C12", "exploration")
    ctx.rule = ("TLC enumerates every signature with 1..3 parameters of which a suffix has defaults, and every well-formed call "
                "shape: number of positional arguments, set of keyword arguments, which of the passed arguments are query "
                "variables (253 shapes; 22 more concrete calls of positional-only and var-positional signatures), with Python's binding, the mode (symbolic iff a variable is passed), the expected calls "
                "of the body and the expected solutions. Each shape is replayed on a generated @symbolic_function and a generated "
                "Predicate subclass with a call log, as the only condition and as a later condition (every variable already bound); variables range over 0..2. Non-trivial = a shape with at least one variable or one keyword/default; "
                "distinct by (signature, shape, kind).")
    ctx.run_tlc("CallShape", "CallShape_mc.cfg", expect="ok")
    ctx.run_tlc("CallShape", "CallShape_sw_OffByOne.cfg", expect="violation")
    shapes = [j for j in ctx.run_tlc("CallShape", "CallShape_gen.cfg", expect="ok").json_lines() if isinstance(j, dict) and "exp" in j]
    if len(shapes) != 315:
        raise MachineryError(f"expected 315 call shapes, got {len(shapes)}")
    results = replay("callshape", shapes)
    ctx.replayed = sum(len(r) for r in results)
    for c, r in zip(shapes, results):
        e = c["exp"]
        vs = sorted(c["vars"])
        exp_sols = sorted([g[str(i)] for i in vs] if isinstance(g, dict) else list(g) for g in e["solutions"]) if e["symbolic"] else None
        exp_calls = sorted(list(x["a"]) for x in e["calls_at_evaluation"]) if e["symbolic"] else None
        for kind in ("function", "predicate", "function_int", "predicate_derived", "function_after_binding", "predicate_after_binding", "function_int_equals_zero",
                     "predicate_expensive_items", "function_items"):
            if kind not in r:
                continue
            o = r[kind]
            key = [c["n"], c["ndef"], c["np"], c["kw"], c["vars"], kind] + ([c["style"]] if c["style"] != "plain" else [])
            ctx.case(key, bool(c["vars"]) or bool(c["kw"]) or c["ndef"] > 0,
                     sample={"signature": f"{c['n']} params, {c['ndef']} defaults", "positional": c["np"], "keywords": c["kw"],
                             "variables": c["vars"], "kind": kind, "observed": o})
            problems = []
            if o.get("error"):
                problems.append("exception " + o["error"])
            else:
                if o["symbolic"] != e["symbolic"]:
                    problems.append(f"returned a {'condition' if o['symbolic'] else 'plain result'}, expected the other")
                elif e["symbolic"]:
                    if kind.startswith("function") and o["calls_at_call_time"] != 0:
                        problems.append("the body ran at call time although a variable was passed")
                    want = exp_sols
                    if kind == "function_int_equals_zero":
                        want = sorted([g[str(i)] for i in vs] if isinstance(g, dict) else list(g) for g in e["solutions_zero"])
                    if o["solutions"] != want:
                        problems.append(f"solutions {o['solutions']}, expected {want}")
                    if o["calls_at_evaluation"] != exp_calls:
                        problems.append(f"body invoked with {o['calls_at_evaluation'][:6]}..., expected one call per candidate binding {exp_calls[:6]}...")
                else:
                    if kind.startswith("function") and o["calls_at_call_time"] != 1:
                        problems.append(f"the body ran {o['calls_at_call_time']} times at call time")
                    if o["concrete_result"] != e["concrete_result"]:
                        problems.append(f"concrete result {o['concrete_result']}, expected {e['concrete_result']}")
            if problems:
                ctx.violation({"shape": key, "expected": {"symbolic": e["symbolic"], "solutions": exp_sols}, "observed": o, "problems": problems},
                              note="call did not bind / run / contribute as Python's binding rule dictates")
        if "expensive_predicate_on_two_items" in r:
            o = r["expensive_predicate_on_two_items"]
            ok = lambda v: v % 3 != 0          # the body of the one-parameter predicate
            want = {"both_items": sorted([a, b] for a in range(3) for b in range(3) if ok(a) and ok(b)),
                    "second_item_later": sorted([a, b] for a in range(3) for b in range(3) if ok(b))}
            key = [c["n"], c["ndef"], c["np"], c["kw"], c["vars"], "expensive_predicate_on_two_items"]
            ctx.case(key, True, sample={"kind": "expensive_predicate_on_two_items", "observed": o})
            if o.get("error") or {k: o.get(k) for k in want} != want:
                ctx.violation({"shape": key, "expected": want, "observed": o},
                              note="a predicate marked is_expensive applied to two items of one object (in one query and in a later one) "
                                   "does not contribute the truth value of the concrete call for each item")
    ctx.exhaustive = True
    ctx.assumptions = ["variables range over 0..2", "positional-only and var-positional signatures are only called concretely (symbolic calls re-pass arguments by name: outside the quantifier's (arity, defaults))", "parameters are ints; the body is (p1 + 2*p2 + 3*p3) % 3 != 0"]
    return ctx.finish()
