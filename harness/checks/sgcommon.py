"""Shared parts of the registry checks C13 / C14 / C20 (SymbolGraph.tla)."""
import json
import os
import random
import subprocess
import tempfile
from harness.core import MachineryError, replay, validate_traces, REPO, PY, VERIF, krrood_env

H1 = ("add_node", "remove_node", "add_relation", "clear")


def h1_trace(name, events):
    ev = []
    for e in events:
        if e["a"] not in H1:
            continue
        d = {"a": e["a"]}
        if e["a"] == "add_node":
            d.update(idx=e["idx"], n=e["n"], cls=e["cls"], o=e.get("o", 0))
        elif e["a"] == "remove_node":
            d.update(idx=e["idx"], n=e["n"], dead=bool(e["dead"]))
        elif e["a"] == "add_relation":
            d.update(s=e["s"], t=e["t"], f=f'{e["owner"]}.{e["f"]}', added=bool(e["added"]), live=bool(e["live"]))
        ev.append(d)
    return {"name": name, "ev": ev}


def histories(ctx, cfg, keep, limit, extra_sim=None):
    """Exhaustive behaviours of the generator config, filtered by `keep`, then a seeded sample of `limit`."""
    r = ctx.run_tlc("SymbolGraph", cfg, expect="ok")
    hs = [h for h in r.json_lines() if isinstance(h, list) and keep(h)]
    total = len(hs)
    if total < 50:
        raise MachineryError(f"{cfg}: only {total} usable histories")
    rnd = random.Random(ctx.seed)
    hs.sort(key=lambda h: repr(h))
    if limit and total > limit:
        hs = rnd.sample(hs, limit)
    return hs, total


def validate_h1(ctx, results, names, pinned: bool):
    traces = [h1_trace(n, r["events"]) for n, r in zip(names, results)]
    cfg = "SymbolGraph_Trace_pinned.cfg" if pinned else "SymbolGraph_Trace_intended.cfg"
    v = validate_traces(ctx, "SymbolGraph_Trace", cfg, traces)
    ctx.traces += len([t for t in traces if t["ev"]])
    return v


SUBS = {"Base": {"Base", "Mid", "Leaf"}, "Mid": {"Mid", "Leaf"}, "DA": {"DA", "DB1", "DB2", "DD"}, "DB1": {"DB1", "DD"},
        "DB2": {"DB2", "DD"}}


def judge_query(qcls, census, tracked, cls, o):
    """C13 verdict for one domain-less query: o = observation {bag, none, foreign, error}. Returns a list of problems."""
    sub = SUBS.get(qcls, {qcls})
    must = {x for x in census & tracked if cls[x] in sub}
    may = {x for x in census - tracked if cls[x] in sub}
    bag = {int(k): v for k, v in o["bag"].items()}
    problems = []
    if o.get("error"):
        problems.append("exception " + str(o["error"]))
    if o["none"]:
        problems.append(f"{o['none']} dead (None) results")
    if o["foreign"]:
        problems.append(f"{o['foreign']} results that are no instance of this history")
    for x in sorted(must):
        if bag.get(x, 0) == 0:
            problems.append(f"live instance {x} ({cls[x]}) missing")
    for x, n in sorted(bag.items()):
        if x not in must and x not in may:
            problems.append(f"instance {x} ({cls.get(x)}) returned but is not a live instance of {qcls}")
        if n > 1:
            problems.append(f"instance {x} ({cls.get(x)}) returned {n} times")
    return problems


def judge_audit(h, r):
    """C13 on the final audit queries of a replayed history."""
    tracked, cls = set(), {}
    for m in h:
        if m["a"] == "create":
            tracked.add(m["o"]); cls[m["o"]] = m["c"]
        elif m["a"] == "clear":
            tracked = set()
        elif m["a"] == "relate":
            tracked |= {m["p"], m["c"]}
    out = []
    for qcls, o in (r.get("audit") or {}).items():
        pr = judge_query(qcls, set(o["census_before"]), tracked, cls, o)
        if pr:
            out.append({"audit_query": qcls, "observed": o, "problems": pr})
    return out


def suite_traces(ctx, tests):
    """Run (a part of) the repository's own test suite with the H1 hooks on and validate the registry events of every
    SymbolGraph object it creates against SymbolGraph_Trace.tla. Returns {trace name: (verdict, tests)}."""
    fd, out = tempfile.mkstemp(prefix="suite_traces_", suffix=".ndjson")
    os.close(fd)
    env = krrood_env({"VERIF_TRACE_OUT": out})
    cmd = [PY, "-m", "pytest", "-q", "-p", "no:cacheprovider", "-p", "harness.pytest_trace", "--timeout=900"] + tests
    p = subprocess.run(cmd, cwd=str(REPO), env=env, capture_output=True, text=True, timeout=1800)
    try:
        traces = [json.loads(l) for l in open(out)]
    finally:
        os.unlink(out)
    if not traces:
        raise MachineryError("the repository's tests produced no registry trace:\n" + p.stdout[-1500:])
    v = validate_traces(ctx, "SymbolGraph_Trace", "SymbolGraph_Trace_intended.cfg", [{"name": t["name"], "ev": t["ev"]} for t in traces])
    ctx.traces += len(traces)
    ctx.cov["repository_test_traces"] = {"graphs": len(traces), "events": sum(len(t["ev"]) for t in traces),
                                         "pytest_tail": p.stdout.strip().splitlines()[-1][:120] if p.stdout.strip() else ""}
    return {t["name"]: (v[t["name"]], t["tests"]) for t in traces if t["ev"]}
