"""Shared parts of the registry checks C13 / C14 / C20 (SymbolGraph.tla)."""
import random
from harness.core import MachineryError, replay, validate_traces

H1 = ("add_node", "remove_node", "add_relation", "clear")


def h1_trace(name, events):
    ev = []
    for e in events:
        if e["a"] not in H1:
            continue
        d = {"a": e["a"]}
        if e["a"] == "add_node":
            d.update(idx=e["idx"], n=e["n"], cls=e["cls"])
        elif e["a"] == "remove_node":
            d.update(idx=e["idx"], n=e["n"], dead=bool(e["dead"]))
        elif e["a"] == "add_relation":
            d.update(s=e["s"], t=e["t"], f=f'{e["owner"]}.{e["f"]}', added=bool(e["added"]), live=bool(e["live"]))
        ev.append(d)
    return {"name": name, "ev": ev}


def histories(ctx, cfg, keep, limit, extra_sim=None):
    """Exhaustive behaviours of the generator config, filtered by `keep`, then a seeded sample of `limit`."""
    r = ctx.run_tlc("SymbolGraph", cfg, expect="ok")
    hs = [h for h in r.json_lines() if isinstance(h, list) and keep(h)]
    total = len(hs)
    if total < 50:
        raise MachineryError(f"{cfg}: only {total} usable histories")
    rnd = random.Random(ctx.seed)
    hs.sort(key=lambda h: repr(h))
    if limit and total > limit:
        hs = rnd.sample(hs, limit)
    return hs, total


def validate_h1(ctx, results, names, pinned: bool):
    traces = [h1_trace(n, r["events"]) for n, r in zip(names, results)]
    cfg = "SymbolGraph_Trace_pinned.cfg" if pinned else "SymbolGraph_Trace_intended.cfg"
    v = validate_traces(ctx, "SymbolGraph_Trace", cfg, traces)
    ctx.traces += len([t for t in traces if t["ev"]])
    return v
