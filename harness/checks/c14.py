import random
from harness.checks.c15 import judge_step
"""C14 - asserting a relation has the same effect whatever lived and died before (SymbolGraph.tla)."""
from harness.core import Ctx, replay, MachineryError
from harness.checks import sgcommon


WORLD = {"univ": ["p1", "p2", "c1", "c2", "c3", "ceo"], "family": ["a", "b", "c", "d"]}


def random_prefix(rnd, model, assertable):
    """A population of the same shape that lived, was related and (mostly) died before; node indices get recycled."""
    names = list(WORLD[model])
    rnd.shuffle(names)
    if model == "univ" and names.index("ceo") < names.index("p1"):
        i, j = names.index("ceo"), names.index("p1")
        names[i], names[j] = names[j], names[i]
    keep = [n for n in names if n != "ceo" and rnd.random() < 0.25]
    facts = rnd.sample(assertable, 3)
    if model == "univ" and rnd.random() < 0.5:
        facts = facts[:2] + [["head_of", "ceo", rnd.choice(["c1", "c2", "c3"])]]
    pre = [{"k": "world", "model": model, "order": names, "facts": facts, "keep": keep,
            "retire_roles": rnd.random() < 0.5}, {"k": "collect"}]
    if rnd.random() < 0.8:
        pre.append({"k": "sweep"})      # otherwise the sweep happens only implicitly (never, for pure assertions)
    return pre


def prefix_suffix(ctx, thorough):
    """Prefix x suffix: the suffix (Ontology.tla behaviours, expectation = Closure) runs after a population of the same
    shape lived and died; every step must look exactly as the closure says - which is what it looks like on a fresh graph."""
    rnd = random.Random(ctx.seed + 14)
    cases = []
    for model in ("univ", "family"):
        r = ctx.run_tlc("Ontology", f"Ontology_gen_{model}.cfg", expect="ok")
        hs = [h for h in r.json_lines() if isinstance(h, list)]
        hs.sort(key=repr)
        assertable = sorted({tuple(s["f"]) for h in hs[:3000] for s in h})
        if model == "univ":
            hs = [h for h in hs if any(s["f"][0] == "head_of" for s in h)] + rnd.sample(hs, 1500)
        hs = rnd.sample(hs, min(len(hs), 8000 if thorough else 1500))
        for h in hs:
            single = {}
            facts = [list(f) for f in rnd.sample(assertable, 6)]
            case = {"model": model, "h": h, "form": "elem", "prefix": random_prefix(rnd, model, [list(f) for f in assertable])}
            if model == "univ" and len(cases) % 6 == 0:
                # a dense earlier population, collected but NOT swept: the new instances may live at the addresses of dead related pairs
                case["prefix"] = [{"k": "dense", "n": 40, "order": [], "keep": []}, {"k": "collect"}]
            if model == "univ":
                wo = list(WORLD["univ"])
                rnd.shuffle(wo)
                if wo.index("ceo") < wo.index("p1"):
                    i, j = wo.index("ceo"), wo.index("p1")
                    wo[i], wo[j] = wo[j], wo[i]
                case["world_order"] = wo
            cases.append(case)
    results = replay("onto", cases)
    ctx.replayed += len(cases)
    ctx.cov["instances_created_at_addresses_of_a_dead_dense_population"] = sum(r.get("world_at_dead_addresses", 0) for r in results)
    for c, r in zip(cases, results):
        bad = None
        for k, (m, o) in enumerate(zip(c["h"], r["steps"])):
            pr = judge_step(m, o)
            if pr:
                bad = {"step": k, "assertion": m["f"], "problems": pr, "observed": o}
                break
        key = ["prefix-suffix", c["model"], c["prefix"][0]["order"], c["prefix"][0]["keep"], [s["f"] for s in c["h"]]]
        ctx.case(key, True, sample={"prefix": c["prefix"], "suffix": [s["f"] for s in c["h"]]})
        if bad:
            ctx.violation({"case": key, "prefix": c["prefix"], **bad},
                          note="after an earlier population lived and died, assertions no longer produce exactly their closure")


def partial_death(ctx, thorough):
    """Ontology.tla with the Die action: part of the population dies between assertions (after a sweep / an evaluation); the
    survivors' later assertions must produce exactly the closure over what the survivors hold."""
    rnd = random.Random(ctx.seed + 41)
    ctx.run_tlc("Ontology", "Ontology_mc_die_geo.cfg", expect="ok")
    cases = []
    for model in ("univ", "family", "geo"):
        hs = [h for h in ctx.run_tlc("Ontology", f"Ontology_gen_die_{model}.cfg", expect="ok").json_lines() if isinstance(h, list)]
        hs = [h for h in hs if any(s["f"][0] == "die" and any(t["f"][0] != "die" for t in h[i + 1:]) for i, s in enumerate(h))]
        hs.sort(key=repr)
        if len(hs) < 200:
            raise MachineryError(f"Ontology_gen_die_{model}: only {len(hs)} histories with a death followed by an assertion")
        for h in rnd.sample(hs, min(len(hs), 6000 if thorough else 700)):
            cases.append({"model": model, "h": h, "form": "elem"})
    results = replay("onto", cases)
    ctx.replayed += len(cases)
    for c, r in zip(cases, results):
        bad = None
        for k, (m, o) in enumerate(zip(c["h"], r["steps"])):
            pr = judge_step(m, o)
            if m["f"][0] == "die" and o.get("still_alive"):
                pr = [f"instances {o['still_alive']} are still alive after every reference to them was dropped (collected, swept)"] + pr
            if pr:
                bad = {"step": k, "assertion": m["f"], "died": m.get("die"), "problems": pr, "observed": o}
                break
        key = ["partial-death", c["model"], [(s["f"], sorted(s.get("die", []))) for s in c["h"]]]
        ctx.case(key, True, sample={"history": key[2]})
        if bad:
            ctx.violation({"case": key, **bad}, note="after part of the population died, the survivors' assertions no longer produce exactly their closure")
    ctx.cov["partial_death_histories"] = len(cases)


def main():
    ctx = Ctx("C14", "model_checking")
    thorough = ctx.tier == "thorough"
    ctx.rule = ("TLC enumerates (a) every phased history build / destroy / sweep-or-query / rebuild-and-assert of up to 11 steps "
                "over 4 instances (Person, Company), (b) every unphased history of 8 steps; each is replayed on the real "
                "registry (gc disabled, reclamation only by the modelled drop/collect); after every p.works_for = c the graph "
                "relations and the three managed fields are compared with the model's facts; every fifth history is replayed again with instances that are falsy objects. Non-trivial = an assertion that "
                "happens after at least one instance died; distinct by history.")
    ctx.run_tlc("SymbolGraph", "SymbolGraph_mc_quick.cfg" if not thorough else "SymbolGraph_mc.cfg", expect="ok")
    ctx.run_tlc("SymbolGraph", "SymbolGraph_sw_StaleRelationIndex.cfg", expect="violation")
    ctx.run_tlc("SymbolGraph", "SymbolGraph_sw_PopIdOfNone.cfg", expect="violation")

    hs1, t1 = sgcommon.histories(ctx, "SymbolGraph_gen_c14p.cfg", lambda h: True, 30000 if thorough else 2500)
    hs2, t2 = sgcommon.histories(ctx, "SymbolGraph_gen_c14.cfg", lambda h: any(s["a"] == "relate" for s in h),
                                 10000 if thorough else 1000)
    hs = hs1 + hs2
    ctx.cov["histories_in_bound"] = {"phased": t1, "unphased_with_relate": t2}
    cases = [{"mode": "c14", "h": h} for h in hs]
    # the same histories with instances whose truth value is False while they are alive (every fifth history)
    cases += [{"mode": "c14", "h": h, "falsy": True} for h in hs[::5]]
    results = replay("sg", cases)
    ctx.replayed = len(cases)
    names = [f"h{i}" for i in range(len(cases))]
    reuse = 0
    for name, c, r in zip(names, cases, results):
        bad = None
        died = False
        nontrivial = False
        facts = set()
        for m, o in zip(c["h"], r["steps"]):
            if m["a"] == "relate":
                want = {tuple(f) for f in m["facts"]}
                facts |= want
                rels = {tuple(x) for x in o["rels"]}
                flds = {tuple(x) for x in o["flds"]}
                live = set(o["live"])
                problems = []
                if o.get("error"):
                    problems.append("exception " + o["error"])
                missing_r = sorted(want - rels)
                missing_f = sorted(want - flds)
                if missing_r:
                    problems.append(f"relations not recorded in the graph: {missing_r}")
                if missing_f:
                    problems.append(f"managed fields not updated: {missing_f}")
                # nothing may be attached to the wrong instance: every relation among live instances is an asserted/derived fact
                extra = sorted(x for x in rels if x not in facts and x[1] in live and x[2] in live)
                if extra:
                    problems.append(f"relations attached to instances they were never asserted for: {extra}")
                if died:
                    nontrivial = True
                if problems and bad is None:
                    bad = {"step": m, "observed": o, "problems": problems}
            if m["a"] in ("drop", "collect"):
                died = True
        ctx.case([c["h"], "falsy"] if c.get("falsy") else c["h"], nontrivial, sample={"history": [(s["a"], s.get("o", s.get("p")), s.get("c")) for s in c["h"]],
                                             "last_observation": r["steps"][-1]})
        if bad is None:
            au = sgcommon.judge_audit(c["h"], r)
            if au:
                bad = au[0]
                bad["problems"] = ["after the assertions a domain-less query no longer sees each live instance once"] + bad["problems"]
        reuse += r.get("addr_reuse", 0)
        if bad:
            ctx.violation({"history": c["h"], "falsy_instances": bool(c.get("falsy")), **bad}, note="effect of asserting a relation depends on the process's past")
    ctx.cov["address_reuse_observed"] = reuse
    prefix_suffix(ctx, thorough)
    partial_death(ctx, thorough)
    v = sgcommon.validate_h1(ctx, results, names, pinned=False)
    for name, c in zip(names, cases):
        vv = v.get(name)
        if vv and vv["v"].startswith("prop:"):
            ctx.violation({"history": c["h"], "trace_verdict": vv}, note="H1 trace rejected by SymbolGraph_Trace")
        elif vv and vv["v"].startswith("shape:"):
            ctx.drift += 1
    # the repository's own tests, run with the H1 hooks on: every registry they build must be a behaviour of the model
    tests = [] if thorough else ["test/test_ontomatic", "test/test_eql/test_symbol_graph.py", "test/test_eql/test_core/test_rules.py",
                                 "test/test_ormatic/test_symbol_graph_persistence.py"]
    for name, (vv, which) in sgcommon.suite_traces(ctx, tests).items():
        if vv["v"].startswith("prop:"):
            ctx.violation({"repository_tests": which, "trace_verdict": vv}, note="registry trace of the repository's own tests rejected by SymbolGraph_Trace")
        elif vv["v"].startswith("shape:"):
            ctx.drift += 1
    if "__invariant__" in v:
        ctx.violation({"trace_verdict": v["__invariant__"]}, note="registry invariant violated on a recorded trace")
    ctx.assumptions = ["node-index reuse is forced by the histories (rustworkx recycles LIFO); address reuse cannot be forced "
                       "from Python and is covered by the model only", "CPython reference counting, gc disabled"]
    return ctx.finish()
