"""C15 - property-descriptor inference reaches the full closure in any assertion order (Ontology.tla)."""
import random
from harness.core import Ctx, replay, validate_traces, MachineryError

SINGLE = {"works_for", "head_of"}
FORMS = ["elem", "bulk", "assign", "insert", "iadd"]


def judge_step(m, o):
    """Compare one observed state with Closure: graph relations exactly; every container field as a set; a
    single-valued field holds one of the derivable targets."""
    problems = []
    if o.get("error"):
        problems.append("exception " + o["error"])
    want = {tuple(x) for x in m["facts"]}
    got = {tuple(x) for x in o["rels"]}
    if want - got:
        problems.append(f"facts missing from the graph: {sorted(want - got)}")
    if got - want:
        problems.append(f"relations beyond the closure: {sorted(got - want)}")
    for inst, d in o["fields"].items():
        for p, vals in d.items():
            targets = {t for (q, s, t) in want if q == p and s == inst}
            if p in SINGLE:
                if targets and (len(vals) != 1 or vals[0] not in targets):
                    problems.append(f"{inst}.{p} = {vals}, derivable targets {sorted(targets)}")
                if not targets and vals:
                    problems.append(f"{inst}.{p} = {vals} but no such fact is derivable")
            elif set(vals) != targets:
                problems.append(f"{inst}.{p} holds {sorted(set(vals))}, facts say {sorted(targets)}")
    return problems


def main():
    ctx = Ctx("C15", "model_checking")
    thorough = ctx.tier == "thorough"
    ctx.rule = ("TLC enumerates every sequence of 3 distinct assertions (4 in the model-checking configs) over the university "
                "model (2 persons, 3 companies, a CEO role) and the /verif family model (transitive + inverse + skipped "
                "hierarchy level) and the geo model (a transitive property without inverse and a sub-property of it, instances of a subclass "
                "of the declaring class), with Closure(asserted) after each step; each sequence is replayed on real instances in one of "
                "5 write forms (append/add, extend/update, assignment to an empty field, insert, augmented assignment += / |=); after every step "
                "SymbolGraph().relations() and every managed field are compared with the closure. Non-trivial = the closure "
                "after the last step is larger than the asserted set; distinct by (model, sequence, form).")
    ctx.run_tlc("Ontology", "Ontology_mc_univ.cfg", expect="ok")
    ctx.run_tlc("Ontology", "Ontology_mc_family.cfg", expect="ok")
    ctx.run_tlc("Ontology", "Ontology_mc_geo.cfg", expect="ok")
    for sw in ("TransOnlyAsserted", "TransOutOnly", "NoInverseOfInferred", "DirectSuperOnly"):
        ctx.run_tlc("Ontology", f"Ontology_sw_{sw}.cfg", expect="violation")
    rnd = random.Random(ctx.seed)
    cases = []
    totals = {}
    for model, nq in (("univ", 4000), ("family", 4000), ("geo", 2000)):
        r = ctx.run_tlc("Ontology", f"Ontology_gen_{model}.cfg", expect="ok")
        hs = [h for h in r.json_lines() if isinstance(h, list)]
        totals[model] = len(hs)
        if len(hs) < 1000:
            raise MachineryError(f"Ontology_gen_{model}: only {len(hs)} behaviours")
        hs.sort(key=repr)
        if not thorough:
            hs = rnd.sample(hs, nq)
        elif len(hs) > 15000:
            hs = rnd.sample(hs, 15000)
        for i, h in enumerate(hs):
            cases.append({"model": model, "h": h, "form": FORMS[i % len(FORMS)], "falsy": i % 7 == 2})
    ctx.cov["behaviours_in_bound"] = totals
    results = replay("onto", cases)
    ctx.replayed = len(cases)
    traces = {"univ": [], "family": [], "geo": []}
    for i, (c, r) in enumerate(zip(cases, results)):
        bad = None
        for k, (m, o) in enumerate(zip(c["h"], r["steps"])):
            pr = judge_step(m, o)
            if pr:
                bad = {"step": k, "assertion": m["f"], "problems": pr, "observed": o}
                break
        key = [c["model"], [s["f"] for s in c["h"]], c["form"]] + (["falsy"] if c.get("falsy") else [])
        nontrivial = len(c["h"][-1]["facts"]) > len(c["h"])
        ctx.case(key, nontrivial, sample={"model": c["model"], "assertions": [s["f"] for s in c["h"]], "form": c["form"],
                                          "closure_size": len(c["h"][-1]["facts"]), "how": r["how"]})
        if bad:
            ctx.violation({"case": key, **bad}, note="fields / graph differ from the closure of the asserted facts")
        traces[c["model"]].append({"name": f"t{i}", "ev": r["events"]})
    # code -> spec: every recorded relation event is a step of the declared semantics, closed at quiescence
    for model in ("univ", "family", "geo"):
        v = validate_traces(ctx, "Ontology_Trace", f"Ontology_Trace_{model}.cfg", traces[model])
        ctx.traces += len(traces[model])
        for name, vv in v.items():
            if vv["v"].startswith("prop:"):
                i = int(name[1:])
                ctx.violation({"case": [cases[i]["model"], [s["f"] for s in cases[i]["h"]], cases[i]["form"]],
                               "trace_verdict": vv, "events": results[i]["events"]},
                              note="H1/H3 event trace rejected by Ontology_Trace")
            elif vv["v"].startswith("shape:"):
                ctx.drift += 1
    ctx.assumptions = ["a single-valued managed field is written at most once per subject (a second write replaces the value while "
                       "the monotone fact base keeps both relations)",
                       "container fields are compared as sets (order and repetition are C16's concern)"]
    return ctx.finish()
