"""C16 - every way of writing a descriptor-managed collection field keeps the data and infers alike (FieldWrites.tla)."""
from harness.core import Ctx, replay, MachineryError


def judge(m, o):
    problems = []
    if o.get("error"):
        problems.append("exception " + o["error"])
    if o["lst"] != m["lst"]:
        problems.append(f"list field holds {o['lst']}, Python semantics dictate {m['lst']}")
    if o["st"] != sorted(m["st"]):
        problems.append(f"set field holds {o['st']}, Python semantics dictate {sorted(m['st'])}")
    want = {tuple(f) for f in m["facts"]}
    got = {tuple(f) for f in o["rels"]}
    if want - got:
        problems.append(f"elements written without their relations / inferences: {sorted(want - got)}")
    if got - want:
        problems.append(f"relations nobody asserted: {sorted(got - want)}")
    for x, d in o["inv"].items():
        if x == "a2":
            # the object made by dataclasses.replace: its own fields hold what a's fields held (with repetitions)
            if d["knows"] != sorted(m["lst"]) or d["known_by"] != sorted(m["st"]):
                problems.append(f"the copy's fields hold {d['knows']} / {d['known_by']}, the original's held {sorted(m['lst'])} / {sorted(m['st'])}")
            continue
        for p in ("knows", "known_by"):
            exp = sorted(t for (q, s, t) in want if q == p and s == x)
            if d[p] != exp:
                problems.append(f"{x}.{p} holds {d[p]}, inferred facts say {exp}")
    if o["types"] != ["MonitoredList", "MonitoredSet"]:
        problems.append(f"managed fields are no longer monitored containers: {o['types']}")
    return problems


def main():
    ctx = Ctx("C16", "model_checking")
    thorough = ctx.tier == "thorough"
    ctx.rule = ("TLC enumerates every sequence of 2 writes (assignment, self-assignment, +=, |=, append, extend, insert, item and "
                "slice assignment, add, update, remove, pop, del item, clear, discard, assignment of a lazy view of the field's own contents - reversed / generator / chain -, and "
                "dataclasses.replace of the owner as last step; argument lists of length <= 2 with repetitions, sets over 3 elements) and samples "
                "sequences of 5 writes by seeded simulation; each is replayed on a real instance; after every write the list "
                "field (exact sequence), the set field, the graph relations and the inverse fields of the elements are compared "
                "with Python semantics + monotone inference. Non-trivial = at least one write on a non-empty field; distinct by "
                "write sequence.")
    ctx.run_tlc("FieldWrites", "FieldWrites_mc.cfg", expect="ok")
    ctx.run_tlc("FieldWrites", "FieldWrites_mc_churn.cfg", expect="ok")
    for sw in ("ClearBeforeCopy", "CopyThroughSet", "UnhookedExtend", "AliasedFirstAssignment", "StaleReportedCache"):
        ctx.run_tlc("FieldWrites", f"FieldWrites_sw_{sw}.cfg", expect="violation")
    behs = [b["h"] for b in ctx.run_tlc("FieldWrites", "FieldWrites_gen.cfg", expect="ok").json_lines() if isinstance(b, dict)]
    if len(behs) < 5000:
        raise MachineryError(f"FieldWrites_gen: only {len(behs)} behaviours")
    ctx.cov["two_write_sequences"] = len(behs)
    sim = ctx.run_tlc("FieldWrites", "FieldWrites_sim.cfg", expect=None, simulate=f"num={1200 if thorough else 500}",
                      depth=8, seed=ctx.seed + 1, workers=8)
    if sim.error:
        raise MachineryError("FieldWrites_sim: " + sim.error)
    deep = {repr(b["h"]): b["h"] for b in sim.json_lines() if isinstance(b, dict)}
    ctx.cov["five_write_sequences_sampled"] = len(deep)
    # short-lived elements on a long-lived owner: before every write the elements outside a's fields die and are replaced
    simc = ctx.run_tlc("FieldWrites", "FieldWrites_sim_churn.cfg", expect=None, simulate=f"num={1200 if thorough else 150}",
                       depth=8, seed=ctx.seed + 2, workers=8)
    if simc.error:
        raise MachineryError("FieldWrites_sim_churn: " + simc.error)
    churn = {repr(b["h"]): b["h"] for b in simc.json_lines() if isinstance(b, dict)}
    ctx.cov["five_write_sequences_with_element_churn"] = len(churn)
    AK = ["list", "tuple", "gen", "iter"]
    cases = [{"h": h, "ak": AK[i % 4], "falsy": i % 5 == 1} for i, h in enumerate(behs)] + [{"h": h, "ak": AK[i % 4]} for i, h in enumerate(deep.values())]
    cases += [{"h": h, "ak": "list", "churn": True} for h in churn.values()]
    results = replay("writes", cases)
    ctx.replayed = len(cases)
    for c, r in zip(cases, results):
        bad = None
        nontrivial = False
        prev_nonempty = False
        for k, (m, o) in enumerate(zip(c["h"], r["steps"])):
            if prev_nonempty:
                nontrivial = True
            prev_nonempty = bool(m["lst"] or m["st"])
            pr = judge(m, o)
            if pr and bad is None:
                bad = {"step": k, "op": m["op"], "problems": pr, "observed": o}
        key = [c["ak"] + ("+churn" if c.get("churn") else "") + ("+falsy" if c.get("falsy") else "")] + [s["op"] for s in c["h"]]
        ctx.case(key, nontrivial, sample={"writes": key, "final_list": c["h"][-1]["lst"], "final_set": c["h"][-1]["st"]})
        if bad:
            ctx.violation({"writes": key, **bad}, note="field contents or recorded relations differ from Python semantics + inference")
    ctx.cov["address_reuse_observed_in_churn"] = sum(r.get("addr_reuse", 0) for r in results)
    ctx.exhaustive = False
    ctx.assumptions = ["the fact base is monotone: replacing or removing an element never retracts its relations",
                       "elements are distinct from the subject (no self relation)"]
    return ctx.finish()
