"""C13 - domain-less variables range over exactly the live instances of their type (SymbolGraph.tla)."""
from harness.core import Ctx, replay
from harness.checks import sgcommon

DIAMOND = {"DA", "DB1", "DB2", "DD"}


def main():
    ctx = Ctx("C13", "model_checking")
    thorough = ctx.tier == "thorough"
    ctx.rule = ("TLC enumerates every history of create(class)/drop/collect/clear/query(type) over the hierarchy "
                "Base<-Mid<-Leaf and the diamond DA<-DB1,DB2<-DD (3 objects, 5 steps; thorough 6 steps); each history is "
                "replayed on the real registry with gc disabled; after every query the returned bag is compared with the "
                "weak-reference census restricted to the registry epoch. Non-trivial = history with a query that must "
                "return at least one instance after at least one drop/clear/create interplay; distinct by history.")
    ctx.run_tlc("SymbolGraph", "SymbolGraph_mc_quick.cfg" if not thorough else "SymbolGraph_mc.cfg", expect="ok")
    ctx.run_tlc("SymbolGraph", "SymbolGraph_sw_DupSubclassList.cfg", expect="violation")

    def keep(h):
        return any(s["a"] == "query" and (s["must"] or s["may"]) for s in h)
    hs, total = sgcommon.histories(ctx, "SymbolGraph_gen_c13t.cfg" if thorough else "SymbolGraph_gen_c13.cfg", keep,
                                   None if thorough else 6000)
    cases = [{"mode": "c13", "h": h} for h in hs]
    results = replay("sg", cases)
    ctx.replayed = len(cases)
    ctx.exhaustive = len(hs) == total
    ctx.cov["histories_in_bound"] = total
    names = [f"h{i}" for i in range(len(cases))]
    for name, c, r in zip(names, cases, results):
        tracked = set()
        cls = {}
        bad = None
        f18 = False
        for m, o in zip(c["h"], r["steps"]):
            if m["a"] == "create":
                tracked.add(m["o"])
                cls[m["o"]] = m["c"]
            elif m["a"] == "clear":
                tracked = set()
            elif m["a"] == "query":
                census = set(o["census_before"])
                okcls = set(m["must"]) | set(m["may"])          # model: class matches (model-alive ones)
                # class match for objects the model thought dead but the census still sees (kept alive by krrood itself)
                from_model = {"Base": {"Base", "Mid", "Leaf"}, "Mid": {"Mid", "Leaf"}, "DA": DIAMOND, "DB1": {"DB1", "DD"},
                              "DB2": {"DB2", "DD"}}.get(m["c"], {m["c"]})
                must = {x for x in census & tracked if cls[x] in from_model}
                may = {x for x in census - tracked if cls[x] in from_model}
                bag = {int(k): v for k, v in o["bag"].items()}
                problems = []
                if o.get("error"):
                    problems.append("exception " + o["error"])
                if o["none"]:
                    problems.append(f"{o['none']} dead (None) results")
                if o["foreign"]:
                    problems.append(f"{o['foreign']} results that are no instance of this history")
                for x in must:
                    if bag.get(x, 0) == 0:
                        problems.append(f"live instance {x} ({cls[x]}) missing")
                for x, n in bag.items():
                    if x not in must and x not in may:
                        problems.append(f"instance {x} ({cls.get(x)}) returned but not a live instance of {m['c']}")
                    if n > 1:
                        if cls.get(x) == "DD" and m["c"] == "DA" and n == 2:
                            f18 = True
                        else:
                            problems.append(f"instance {x} returned {n} times")
                if problems and bad is None:
                    bad = {"query": m, "observed": o, "problems": problems}
        ctx.case(c["h"], True, sample={"history": [(s["a"], s.get("c", s.get("o"))) for s in c["h"]],
                                       "observed_last": r["steps"][-1]})
        if bad:
            ctx.violation({"history": c["h"], **bad}, note="query result differs from the live instances (census) of the type")
        elif f18:
            ctx.known_finding("C13-F18", {"history": c["h"]})
    v = sgcommon.validate_h1(ctx, results, names, pinned=sgcommon_pinned())
    for name, c in zip(names, cases):
        vv = v.get(name)
        if vv and vv["v"].startswith("prop:C13"):
            ctx.violation({"history": c["h"], "trace_verdict": vv}, note="H1 trace rejected by SymbolGraph_Trace")
        elif vv and vv["v"].startswith("shape:"):
            ctx.drift += 1
    ctx.assumptions = ["'currently exist' = weak-reference census taken by the harness immediately before the query, gc disabled",
                       "instances that survive SymbolGraph().clear() are unspecified (may appear at most once)",
                       "CPython reference counting semantics"]
    return ctx.finish()


def sgcommon_pinned():
    from harness.core import load_findings
    return any(f.fid == "C14-F19" and f.status == "open" for f in load_findings())
