"""C13 - domain-less variables range over exactly the live instances of their type (SymbolGraph.tla)."""
from harness.core import Ctx, replay
from harness.checks import sgcommon



def main():
    ctx = Ctx("C13", "model_checking")
    thorough = ctx.tier == "thorough"
    ctx.rule = ("TLC enumerates every history of create(class)/drop/collect/clear/query(type) over the hierarchy "
                "Base<-Mid<-Leaf and the diamond DA<-DB1,DB2<-DD (3 objects, 5 steps; thorough 6 steps); each history is "
                "replayed on the real registry with gc disabled (a further family creates instances by copy / deepcopy / dataclasses.replace / to_dao().from_dao() of a live one); after every query the returned bag is compared with the "
                "weak-reference census restricted to the registry epoch. Non-trivial = history with a query that must "
                "return at least one instance after at least one drop/clear/create interplay; distinct by history.")
    ctx.run_tlc("SymbolGraph", "SymbolGraph_mc_quick.cfg" if not thorough else "SymbolGraph_mc.cfg", expect="ok")
    ctx.run_tlc("SymbolGraph", "SymbolGraph_sw_DupSubclassList.cfg", expect="violation")

    def keep(h):
        return any(s["a"] == "query" and (s["must"] or s["may"]) for s in h)
    hs, total = sgcommon.histories(ctx, "SymbolGraph_gen_c13t.cfg" if thorough else "SymbolGraph_gen_c13.cfg", keep,
                                   40000 if thorough else 6000)
    # second family: Person/Company histories in which relations are asserted between queries (the registry must not
    # grow a second node for an instance it already knows)
    hs_b, total_b = sgcommon.histories(ctx, "SymbolGraph_gen_c14.cfg",
                                       lambda h: any(s["a"] == "relate" for s in h) and any(s["a"] in ("drop", "collect") for s in h),
                                       10000 if thorough else 2500)
    ctx.cov["histories_in_bound_relate_family"] = total_b
    # third family: instances that come into being without calling the class - copy, deepcopy, dataclasses.replace and
    # reconstruction from a DAO (to_dao(p).from_dao()) of a live instance
    ctx.run_tlc("SymbolGraph", "SymbolGraph_mc_modes.cfg", expect="ok")
    ctx.run_tlc("SymbolGraph", "SymbolGraph_sw_UnregisteredModes.cfg", expect="violation")
    hs_m, total_m = sgcommon.histories(ctx, "SymbolGraph_gen_c13m.cfg",
                                       lambda h: keep(h) and any(s.get("mode") for s in h), 8000 if thorough else 1500)
    ctx.cov["histories_in_bound_creation_modes_family"] = total_m
    # fourth family: the query object is built by one step and evaluated by a later one (instances created in between)
    hs_d, total_d = sgcommon.histories(ctx, "SymbolGraph_gen_c13d.cfg",
                                       lambda h: any(s["a"] == "evaldeclared" and (s["must"] or s["may"]) for s in h), 8000 if thorough else 1200)
    ctx.cov["histories_in_bound_declare_then_evaluate_family"] = total_d
    hs = hs + hs_b + hs_m + hs_d
    cases = [{"mode": "c13", "h": h} for h in hs]
    cases += [{"mode": "c13", "h": h, "falsy": True} for h in hs[::7]]      # instances that are falsy objects while alive
    results = replay("sg", cases)
    ctx.replayed = len(cases)
    ctx.exhaustive = len(hs) == total + total_b + total_m + total_d
    ctx.cov["histories_in_bound"] = total
    names = [f"h{i}" for i in range(len(cases))]
    reuse = 0
    for name, c, r in zip(names, cases, results):
        tracked, cls, bad = set(), {}, None
        reuse += r.get("addr_reuse", 0)
        for m, o in zip(c["h"], r["steps"]):
            if m["a"] == "create":
                tracked.add(m["o"])
                cls[m["o"]] = m["c"]
            elif m["a"] == "clear":
                tracked = set()
            elif m["a"] == "relate":
                tracked |= {m["p"], m["c"]}
            elif m["a"] in ("query", "evaldeclared"):
                problems = sgcommon.judge_query(m["c"], set(o["census_before"]), tracked, cls, o)
                if problems and bad is None:
                    bad = {"query": m, "observed": o, "problems": problems}
        if bad is None:
            au = sgcommon.judge_audit(c["h"], r)
            if au:
                bad = au[0]
        ctx.case([c["h"], "falsy"] if c.get("falsy") else c["h"], True, sample={"history": [(s["a"], s.get("c", s.get("o"))) for s in c["h"]],
                                       "observed_last": r["steps"][-1]})
        if bad:
            ctx.violation({"history": c["h"], "falsy_instances": bool(c.get("falsy")), **bad}, note="query result differs from the live instances (census) of the type")
    ctx.cov["address_reuse_observed"] = reuse
    v = sgcommon.validate_h1(ctx, results, names, pinned=False)
    for name, c in zip(names, cases):
        vv = v.get(name)
        if vv and vv["v"].startswith("prop:C13"):
            ctx.violation({"history": c["h"], "trace_verdict": vv}, note="H1 trace rejected by SymbolGraph_Trace")
        elif vv and vv["v"].startswith("shape:"):
            ctx.drift += 1
    ctx.assumptions = ["'currently exist' = weak-reference census taken by the harness immediately before the query, gc disabled",
                       "instances that survive SymbolGraph().clear() are unspecified (may appear at most once)",
                       "CPython reference counting semantics"]
    return ctx.finish()


def sgcommon_pinned():
    from harness.core import load_findings
    return any(f.fid == "C14-F19" and f.status == "open" for f in load_findings())
