"""C05 - persisting to SQL and reloading in a fresh session restores the object graph (ObjGraph.tla + Rows)."""
from harness.core import Ctx, replay
from harness.checks.c04 import heaps, edges


def main():
    ctx = Ctx("C05", "model_checking")
    thorough = ctx.tier == "thorough"
    ctx.rule = ("The heaps of ObjGraph.tla (see C04; quick: seeded sample, thorough: every 4th of all 66 978) are instantiated, "
                "to_dao(root) is added to a session on a fresh in-memory SQLite database and committed; the rows per table are "
                "counted with plain SQL and compared with Rows (one row per distinct reachable object along the joined-table "
                "chain); the root is then loaded in a fresh session through its own DAO class and through every DAO base class, "
                "converted with from_dao and compared by the isomorphism walk (relationship collections as identity sets). In every third heap "
                "distinct non-root objects of one class carry equal scalar values (twins stay two rows / two objects); a loaded copy's JSON "
                "columns are modified in memory and the row is loaded again. "
                "Non-trivial = at least two objects reachable and two references; distinct by (heap, root).")
    ctx.run_tlc("ObjGraph", "ObjGraph_mc.cfg", expect="ok", timeout=1500)
    hs = heaps(ctx, thorough)
    if thorough:
        hs = hs[ctx.seed % 4::4]
    # every fifth heap consists of falsy objects; in every third, distinct non-root objects of one class carry equal scalar values
    cases = [dict(h, mode="c05", falsy=(i % 5 == 4), twins=(i % 3 == 1)) for i, h in enumerate(hs)]
    results = replay("objgraph", cases, timeout=5000)
    ctx.replayed = len(cases)
    for h, r in zip(hs, results):
        key = [h["cls"], h["rec"], h["root"]]
        ctx.case(key, len(h["reach"]) >= 2 and edges(h) >= 2, sample={"classes": h["cls"], "objects": h["rec"], "root": h["root"],
                                                                     "rows_expected": h["rows"], "observed": r})
        problems = []
        if r.get("error"):
            problems.append("exception " + r["error"])
        else:
            if r["rows"] != h["rows"]:
                problems.append(f"rows per table {r['rows']}, expected one row per distinct object {h['rows']}")
            diffs = {k: v for k, v in r["diffs"].items() if v}
            if not diffs and r.get("diff_after_modifying_a_loaded_copy"):
                problems.append("after a loaded copy was modified in memory (not written back), loading the rows again in a fresh "
                                "session gave: " + r["diff_after_modifying_a_loaded_copy"])
            if r.get("shared_state_problem") and not h["leaks"] and not h["shared_one"]:
                problems.append("several from_dao calls sharing one FromDAOState: " + r["shared_state_problem"])
        if not problems and not diffs:
            continue
        if not problems and h["leaks"]:
            ctx.known_finding("C05-F08", {"heap": key, "diffs": diffs})
        elif not problems and h["shared_one"] and all(v.endswith(".one: None instead of VA") or v.endswith(".one: None instead of VB")
                                                      for v in diffs.values()):
            ctx.known_finding("C05-F09", {"heap": key, "diffs": diffs})
        else:
            problems += [f"loaded through {k}: {v}" for k, v in diffs.items()] if not r.get("error") else []
            ctx.violation({"heap": key, "observed": r, "problems": problems}, note="graph reloaded from SQL differs from the original")
    ctx.assumptions = ["relationship collections are compared as identity sets (association tables carry neither order nor repetition)",
                       "fresh in-memory SQLite per heap, krrood.ormatic.utils.create_engine"]
    return ctx.finish()
