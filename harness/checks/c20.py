"""C20 - krrood never extends the lifetime of user objects (SymbolGraph.tla, lifetime part)."""
from harness.core import Ctx, replay
from harness.checks import sgcommon


def main():
    ctx = Ctx("C20", "model_checking")
    thorough = ctx.tier == "thorough"
    ctx.rule = ("TLC enumerates every history of create/drop/collect/relate/domain-less query/explicit-domain query over Person "
                "and Company (3 objects, 6 steps; thorough 7) with two live-set predictions per step: liveR (only the user's "
                "references keep an instance alive - the property) and live (as implemented: evaluated queries pin what they "
                "ranged over). A further family has an instance that refers to another through a plain attribute "
                "(CreateRef), a partially consumed evaluation that reaches the referred instance through that attribute, and the reset of "
                "the reference (Detach). Each history is replayed with gc disabled and the weak-reference census compared after every "
                "step. Histories without queries are additionally run as the body of a create/relate/discard loop (3 iterations, "
                "two ways of ending an iteration) and the census of krrood-typed objects, graph nodes and relations must not "
                "grow. Non-trivial = a history in which at least one instance dies; distinct by history.")
    ctx.run_tlc("SymbolGraph", "SymbolGraph_mc_quick.cfg" if not thorough else "SymbolGraph_mc.cfg", expect="ok")
    ctx.run_tlc("SymbolGraph", "SymbolGraph_sw_StrongExprTable.cfg", expect="violation")
    ctx.run_tlc("SymbolGraph", "SymbolGraph_sw_PopIdOfNone.cfg", expect="violation")

    def dies(h):
        return any(len(s["liveR"]) < len(p["liveR"]) for p, s in zip(h, h[1:]))
    hs, total = sgcommon.histories(ctx, "SymbolGraph_gen_c20t.cfg" if thorough else "SymbolGraph_gen_c20.cfg", dies,
                                   12000 if thorough else 3000)
    ctx.cov["histories_in_bound_with_a_death"] = total
    # histories in which a rule infers instances from live ones (Infer): the inferred instance lives exactly as long as its holder
    ctx.run_tlc("SymbolGraph", "SymbolGraph_mc_infer.cfg", expect="ok")
    hs_i, total_i = sgcommon.histories(ctx, "SymbolGraph_gen_c20i.cfg", lambda h: dies(h) and any(s["a"] == "infer" for s in h),
                                       6000 if thorough else 1200)
    ctx.cov["histories_in_bound_with_an_inference_and_a_death"] = total_i
    hs = hs + hs_i
    # histories in which an instance refers to another through a plain attribute that is later reset (CreateRef / Detach) around
    # a partially consumed evaluation that reaches the referred instance through that attribute
    ctx.run_tlc("SymbolGraph", "SymbolGraph_mc_detach.cfg", expect="ok")
    hs_d, total_d = sgcommon.histories(ctx, "SymbolGraph_gen_c20d.cfg",
                                       lambda h: dies(h) and any(s["a"] == "detach" for s in h) and any(s["a"] == "queryfirst" for s in h),
                                       3000 if thorough else 600)
    ctx.cov["histories_in_bound_with_a_detached_reference_and_an_abandoned_evaluation"] = total_d
    hs = hs + hs_d
    cases = [{"mode": "c14", "h": h} for h in hs]
    loops = [h for h in hs if not any(s["a"] in ("query", "queryx", "queryfirst", "infer", "createref", "detach") for s in h)]
    # loop bodies proper: histories of create / relate / drop / collect / sweep without queries (SymbolGraph_gen_c14.cfg)
    noq, _ = sgcommon.histories(ctx, "SymbolGraph_gen_c20l.cfg",
                                lambda h: any(s["a"] == "relate" for s in h) and not any(s["a"] in ("query", "queryx", "queryfirst", "clear") for s in h),
                                3000 if thorough else 1200)
    loops = loops + noq
    loop_cases = [{"mode": "c20", "h": h, "loops": 3, "end": ("sweep" if i % 2 == 0 else "evaluate"), "events": False}
                  for i, h in enumerate(loops[: (3000 if thorough else 1500)])]
    results = replay("sg", cases + loop_cases)
    ctx.replayed = len(cases) + len(loop_cases)
    # the same loop over Ontology.tla behaviours (roles, role takers, inverse / transitive / super-property inference)
    import random
    rnd = random.Random(ctx.seed + 20)
    onto_cases = []
    for model in ("univ", "family", "geo"):
        ob = [h for h in ctx.run_tlc("Ontology", f"Ontology_gen_{model}.cfg", expect="ok").json_lines() if isinstance(h, list)]
        ob.sort(key=repr)
        if model == "univ":
            ob = [h for h in ob if any(s["f"][0] == "head_of" for s in h)][: (1500 if thorough else 300)] + rnd.sample(ob, 1500 if thorough else 300)
        else:
            ob = rnd.sample(ob, 1500 if thorough else 300)
        for i, h in enumerate(ob):
            onto_cases.append({"mode": "loop", "model": model, "h": h, "loops": 3, "end": ("sweep" if i % 2 == 0 else "evaluate"),
                               "form": ("elem", "assign")[i % 2]})
    onto_results = replay("onto", onto_cases)
    ctx.replayed += len(onto_cases)
    for c, r in zip(cases, results):
        bad = None
        f24 = False
        for k, (m, o) in enumerate(zip(c["h"], r["steps"])):
            census = sorted(o["live"])
            if isinstance(o.get("first"), str) or o.get("error"):
                bad = {"step": k, "action": m, "exception": o.get("first") if isinstance(o.get("first"), str) else o.get("error")}
                break
            if m["a"] == "queryfirst" and (o.get("first") or 0) not in (m["first"] or [0]):
                ctx.drift += 1      # which element comes first is an internal order, not part of the property
            if census == sorted(m["liveR"]):
                continue
            if census == sorted(m["live"]):
                f24 = True          # exactly what the as-implemented model (StrongExprTable) predicts
                continue
            bad = {"step": k, "action": m, "census": census, "expected_liveR": m["liveR"], "as_implemented_live": m["live"]}
            break
        ctx.case(c["h"], True, sample={"history": [(s["a"], s.get("c", s.get("o", s.get("p")))) for s in c["h"]],
                                       "census_last": r["steps"][-1]["live"], "liveR_last": c["h"][-1]["liveR"]})
        if bad:
            ctx.violation({"history": c["h"], **bad},
                          note="an evaluation raised, or an instance is alive (or dead) although neither the property nor the recorded finding explains it")
        elif f24:
            ctx.known_finding("C20-F24", {"history": c["h"]})
    for c, r in list(zip(loop_cases, results[len(cases):])) + list(zip(onto_cases, onto_results)):
        g = r["growth"]
        problems = []
        if any(x["alive_after_discard"] for x in g):
            problems.append(f"instances alive after all references were dropped: {[x['alive_after_discard'] for x in g]}")
        if g[1]["nodes"] != g[2]["nodes"] or g[2]["nodes"] != g[0]["nodes"]:
            problems.append(f"symbol graph keeps nodes of discarded instances: {[x['nodes'] for x in g]}")
        if g[1]["relations"] != g[2]["relations"]:
            problems.append(f"symbol graph keeps relations of discarded instances: {[x['relations'] for x in g]}")
        if g[1].get("footprint") != g[2].get("footprint"):
            problems.append(f"bookkeeping containers of the symbol graph grow per loop iteration: {[x.get('footprint') for x in g]} entries")
        grow = {t: (g[1]["krrood"].get(t, 0), g[2]["krrood"].get(t, 0)) for t in set(g[1]["krrood"]) | set(g[2]["krrood"])
                if g[1]["krrood"].get(t, 0) != g[2]["krrood"].get(t, 0)}
        known_growth = False
        if grow:
            delta = {t: b - a for t, (a, b) in grow.items()}
            if c["end"] == "evaluate" and (delta == r.get("end_query_footprint")):
                known_growth = True      # exactly the expression nodes of the one query that ended the iteration (F24)
            else:
                problems.append(f"krrood-held objects grow per loop iteration: {grow}")
        key = (["loop", c["end"], [(s["a"], s.get("c", s.get("o", s.get("p")))) for s in c["h"]]] if c["mode"] == "c20"
               else ["ontology-loop", c["model"], c["end"], c["form"], [s["f"] for s in c["h"]]])
        ctx.case(key, True)
        if known_growth and not problems:
            ctx.known_finding("C20-F24", {"loop_body": c["h"], "growth": grow})
        if problems:
            ctx.violation({"loop_body": c["h"], "end_of_iteration": c["end"], "problems": problems, "measurements": g},
                          note="create/relate/discard loop grows a krrood-held structure")
    ctx.cov["loop_bodies"] = len(loop_cases)
    ctx.cov["ontology_loop_bodies"] = len(onto_cases)
    ctx.assumptions = ["CPython reference counting with gc disabled; gc.collect() only where the history says so",
                       "growth is measured as the census of live objects whose type is defined in a krrood.* module "
                       "(gc.get_objects), the number of graph nodes and of relations, and the number of entries in the builtin containers "
                       "reachable from the SymbolGraph singleton - no private attribute is named"]
    return ctx.finish()
