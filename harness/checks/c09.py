"""C09 - result quantifiers enforce exactly the stated count (Quantifier.tla)."""
import subprocess, tempfile, shutil, os, time
from harness.core import Ctx, replay, MachineryError, SPEC


def apalache(ctx):
    """Inductive-invariant obligations for unbounded n (QuantInd.tla). Model-only: a failure here is a
    machinery problem, never a verdict about krrood; absence of apalache is recorded, not fatal."""
    obligations = [
        ("init", ["--init=Init", "--inv=IndInv", "--length=0"]),
        ("step", ["--init=IndInit", "--inv=IndInv", "--length=1"]),
        ("safe", ["--init=IndInit", "--inv=Safe", "--length=0"]),
    ]
    res = {}
    exe = shutil.which("apalache-mc")
    if not exe:
        return {"skipped": "apalache-mc not found"}
    for name, args in obligations:
        out = tempfile.mkdtemp(prefix="apa_")
        t0 = time.time()
        try:
            p = subprocess.run([exe, "check", "--cinit=CInit", f"--out-dir={out}", f"--run-dir={out}/run"] + args
                               + [str(SPEC / "QuantInd.tla")], capture_output=True, text=True, timeout=300, cwd=out)
            ok = "The outcome is: NoError" in p.stdout
            res[name] = {"discharged": ok, "wall_s": round(time.time() - t0, 1)}
            if not ok:
                res[name]["tail"] = p.stdout[-500:]
        except subprocess.TimeoutExpired:
            res[name] = {"discharged": False, "timeout": True}
        finally:
            shutil.rmtree(out, ignore_errors=True)
    return res


def main():
    ctx = Ctx("C09", "model_checking")
    thorough = ctx.tier == "thorough"
    ctx.rule = ("TLC enumerates every (constraint kind, lower, upper, n) with bounds in -1..5 and n in 0..6; each behaviour "
                "is the client-visible observation sequence (i-th solution | exception class | stop) per next(); "
                "replayed on an(entity)/an(set_of)/the over real domains in 6 query forms (one whose domain holds values of other types), each query object evaluated three times; every sequence of per-binding solution "
                "counts (0..2, up to 4 bindings) for a the(...) nested in and correlated with an enclosing query. Non-trivial = the constraint "
                "was constructed and at least one next() happened; distinct by (kind, lo, hi, n, form).")
    # 1. model checking: I => R, switches off; non-vacuity: each switch on must be refuted
    ctx.run_tlc("Quantifier", "Quantifier_mc.cfg", expect="ok")
    for sw in ("CheckOnlyAtEnd", "StrictUpper", "SkipFinal"):
        ctx.run_tlc("Quantifier", f"Quantifier_sw_{sw}.cfg", expect="violation")
    # 2. behaviours
    gen = ctx.run_tlc("Quantifier", "Quantifier_gen.cfg", expect="ok")
    behs = gen.json_lines()
    if len(behs) < 100:
        raise MachineryError(f"Quantifier_gen produced only {len(behs)} behaviours")
    forms = ["entity", "setof", "nocond", "two", "falsy", "typed"]
    cases = []
    for b in behs:
        for form in forms:
            c = dict(b)
            c["form"] = form
            cases.append(c)
    # two live evaluations of one quantified query object, every interleaving (QuantifierPair.tla)
    ctx.run_tlc("QuantifierPair", "QuantifierPair_mc.cfg", expect="ok")
    ctx.run_tlc("QuantifierPair", "QuantifierPair_sw_SharedCounter.cfg", expect="violation")
    pairs = ctx.run_tlc("QuantifierPair", "QuantifierPair_gen.cfg", expect="ok").json_lines()
    if len(pairs) < 1000:
        raise MachineryError(f"QuantifierPair_gen produced only {len(pairs)} schedules")
    if not thorough:
        import random
        pairs.sort(key=lambda b: repr(b))
        pairs = random.Random(ctx.seed).sample(pairs, 1500)
    for b in pairs:
        c = dict(b)
        c["form"] = "pair"
        cases.append(c)
    # the(...) nested in an enclosing query and correlated with it (NestedThe.tla)
    ctx.run_tlc("NestedThe", "NestedThe_mc.cfg", expect="ok")
    ctx.run_tlc("NestedThe", "NestedThe_mc_strict.cfg", expect="ok")
    ctx.run_tlc("NestedThe", "NestedThe_sw_MemoFirst.cfg", expect="violation")
    nested = [j for j in ctx.run_tlc("NestedThe", "NestedThe_gen.cfg", expect="ok").json_lines() if isinstance(j, dict) and "counts" in j]
    if len(nested) < 100:
        raise MachineryError(f"NestedThe_gen produced only {len(nested)} behaviours")
    for b in nested:
        for variant in (0, 1):
            cases.append({"form": "nested", "counts": b["counts"], "variant": variant, "allowed": b["allowed"]})
    results = replay("c09", cases)
    ctx.replayed = len(cases)
    for c, r in zip(cases, results):
        if c["form"] == "nested":
            key = ["nested", c["counts"], c["variant"]]
            ctx.case(key, len(c["counts"]) >= 2, sample={"case": key, "allowed": c["allowed"], "observed": r["obs"]})
            if r["obs"] not in [[list(x) for x in a] for a in c["allowed"]]:
                ctx.violation({"case": key, "allowed": c["allowed"], "observed": r["obs"]},
                              note="nested correlated the(...): observations differ from every allowed per-binding sequence")
            continue
        if c["form"] == "pair":
            key = ["pair", c["kind"], c["lo"], c["hi"], c["n"], [(e["i"], e["o"]) for e in c["h"]]]
            ctx.case(key, True, sample={"case": key[:5], "schedule": c["h"], "observed": r["obs"]})
            if r["obs"] != c["h"]:
                ctx.violation({"case": c, "expected": c["h"], "observed": r["obs"]},
                              note="interleaved evaluations of one quantified query: an iterator's observations differ from Expected")
            continue
        exp = c["the"] if c["kind"] == "the" else c["h"]
        key = [c["kind"], c["lo"], c["hi"], c["n"], c["form"]]
        nontrivial = not (len(c["h"]) == 1 and c["h"][0].endswith("Error"))
        ctx.case(key, nontrivial, sample={"case": key, "expected": exp, "observed": r["obs"]})
        if r["obs"] != exp:
            ctx.violation({"case": c, "expected": exp, "observed": r["obs"]},
                          note="observation sequence differs from Quantifier.Expected")
        elif any(a != exp for a in r.get("again", [])):
            ctx.violation({"case": c, "expected": exp, "observed_on_later_evaluations": r["again"]},
                          note="a later evaluation of the same quantified query object does not follow Quantifier.Expected")
    ctx.exhaustive = True
    if thorough or os.environ.get("VERIF_APALACHE") == "1":
        ctx.cov["apalache_obligations"] = apalache(ctx)
    ctx.assumptions = ["result order is not prescribed: the i-th value must be a solution not yielded before",
                       "the(...) is observed through evaluate() (value or exception class), not stepwise",
                       "nested the(...): the enclosing variable is bound before the nested description is reached (conditions written in that "
                       "order); a binding with several solutions may stream its first solution downstream before raising"]
    return ctx.finish()
