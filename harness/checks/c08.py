"""C08 - rule trees follow except-if / else-if / also-if semantics (RuleTree.tla)."""
from harness.core import Ctx, replay, MachineryError


def shape(ch):
    return "[" + " ".join(f"{b[0]}{b[1]}{shape(b[2]) if b[2] else ''}" for b in ch) + "]"


def main():
    ctx = Ctx("C08", "model_checking")
    thorough = ctx.tier == "thorough"
    ctx.rule = ("TLC enumerates every with-block program with up to 3 branches (thorough: 4) of refinement / alternative / "
                "next_rule in any nesting over one variable, and for each the per-element expectation of the lexical reference "
                "(Expected) and of the as-implemented node-graph + selector model (ImplFire) on the complete world (one element "
                "per truth vector of the branch conditions); each program is built with real nested with-blocks and evaluated in "
                "two domain orders, and once written in two steps (the branches in a first `with query:` block, the base conclusion in a second one); per element the set of inferred conclusion types is compared (also for a rule extended after an evaluation and for the second of two iterables obtained back to back). Non-trivial = a program with at "
                "least two branches; distinct by (program, domain order). The coverage index of the selectors (SeenSet.tla: add / check / "
                "clear over partial assignments, with and without configured keys) is model-checked and all 3-operation behaviours replayed.")
    ctx.run_tlc("RuleTree", "RuleTree_mc_plain.cfg", expect="ok")          # on the unaffected shapes the implementation model meets the reference
    ctx.run_tlc("RuleTree", "RuleTree_sw_all.cfg", expect="violation")     # ... and not on all shapes (witnesses of the findings)
    progs = [j for j in ctx.run_tlc("RuleTree", "RuleTree_gen4.cfg" if thorough else "RuleTree_gen3.cfg", expect="ok").json_lines()
             if isinstance(j, dict) and "prog" in j]
    if len(progs) < 150:
        raise MachineryError(f"only {len(progs)} programs")
    cases = []
    for p in progs:
        for order in (0, 1):
            cases.append({"prog": p["prog"], "k": p["k"], "order": order, "cases": p["cases"], "agree": p["agree"]})
    # the same rule written in two steps: a first `with query:` block with the branches, a second one with the base conclusion
    for p in progs:
        if p["prog"]:
            cases.append({"prog": p["prog"], "k": p["k"], "order": 0, "base_last": True, "cases": p["cases"], "agree": p["agree"]})
    # ... and evaluated before it is extended: base rule, evaluate, add the branches, evaluate twice (the last evaluation is judged)
    for p in progs[::2]:
        if p["prog"]:
            cases.append({"prog": p["prog"], "k": p["k"], "order": 0, "grow": True, "cases": p["cases"], "agree": p["agree"]})
    # ... and evaluated through two iterables obtained back to back (the first consumed first, the second judged)
    for p in progs[1::2]:
        if p["prog"]:
            cases.append({"prog": p["prog"], "k": p["k"], "order": 0, "held": True, "cases": p["cases"], "agree": p["agree"]})
    results = replay("ruletree", cases)
    ctx.replayed = len(cases)
    meets = 0
    for c, r in zip(cases, results):
        key = [shape(c["prog"]), c["order"]] + (["two_steps"] if c.get("base_last") else []) + (["grown_after_evaluation"] if c.get("grow") else []) + (["second_of_two_iterables"] if c.get("held") else [])
        nb = shape(c["prog"]).count("ref") + shape(c["prog"]).count("alt") + shape(c["prog"]).count("next")
        ctx.case(key, nb >= 2, sample={"program": shape(c["prog"]), "order": c["order"], "observed": r.get("res")})
        if r.get("error"):
            ctx.violation({"program": shape(c["prog"]), "prog": c["prog"], "error": r["error"]}, note="building or evaluating the rule tree raised")
            continue
        diff_ref, diff_impl = [], []
        for cs in c["cases"]:
            ek = "".join(str(cs["e"][str(i)]) for i in range(c["k"] + 1))
            got = sorted(set(r["res"].get(ek, [])))
            exp, impl = sorted(cs["exp"]), sorted(cs["impl"])
            if cs["ambig"]:
                # several sibling refinements hold: the statement does not say which wins - any non-empty subset of them or
                # of the reference answer is accepted
                continue
            if got != exp:
                diff_ref.append({"element": ek, "expected": exp, "observed": got})
            if got != impl:
                diff_impl.append({"element": ek, "as_implemented_model": impl, "observed": got})
        if not diff_ref:
            meets += 1
            continue
        info = {"program": shape(c["prog"]), "prog": c["prog"], "order": c["order"], "written_in_two_steps": bool(c.get("base_last")), "extended_after_an_evaluation": bool(c.get("grow")),
                "differs_from_reference": diff_ref[:6]}
        # fallback attribution (signature + mismatch kind): with a next_rule in the tree the Next selector's
        # left_evaluated / right_evaluated flags survive from the previous binding, so a binding may ADDITIONALLY show the
        # conclusion of a branch that did not fire for it (which bindings depends on the enumeration order; the per-element
        # model does not carry that state). Only extra conclusions on top of the as-implemented prediction are attributed.
        extra_only = ("next" in shape(c["prog"]) and all(set(d["as_implemented_model"]) < set(d["observed"]) for d in diff_impl))
        if c.get("grow") and len(c["prog"]) >= 2 and diff_impl:
            # signature (finding F35): the rule was evaluated before it was extended and the later block holds several sibling branches
            info["match"] = "signature(extended after an evaluation, two or more top-level branches in the later block)"
            ctx.known_finding("C08-F35", info)
        elif not diff_impl:
            ctx.known_finding("C08-F13", info)
        elif extra_only:
            info["match"] = "signature(next_rule in the tree, only extra conclusions on top of the as-implemented prediction)"
            ctx.known_finding("C08-F27", info)       # exactly the as-implemented model (stale operands / chain replacement / next de-dup)
        else:
            info["differs_from_as_implemented_model"] = diff_impl[:6]
            ctx.violation(info, note="conclusions differ from the rule-tree semantics and from the recorded as-implemented behaviour")
    # a refinement whose condition introduces a variable of its own (RuleNewVar.tla)
    nv = [j for j in ctx.run_tlc("RuleNewVar", "RuleNewVar_gen.cfg", expect="ok").json_lines() if isinstance(j, dict) and "xa" in j]
    if len(nv) != 108:
        raise MachineryError(f"RuleNewVar_gen: expected 108 worlds, got {len(nv)}")
    for c, r in zip(nv, replay("ruletree", nv)):
        ctx.replayed += 1
        exp = sorted([t[0], t[1], t[2]] for t in c["exp"])
        key = ["refinement introducing a variable", c["xa"], c["ya"]]
        ctx.case(key, any(t[0] == "T1" for t in exp), sample={"world": key, "expected": exp, "observed": r["newvar"]})
        for o in r["newvar"]:
            if isinstance(o, str) or sorted(map(list, {tuple(t) for t in o})) != exp:
                ctx.violation({"world": key, "expected_instances": exp, "observed_per_domain_order": r["newvar"]},
                              note="a refinement whose condition binds a variable of its own: the inferred instances are not one per "
                                   "triggering binding, built from that binding's values")
                break
        exp2 = sorted([t[0], t[1], t[2]] for t in c["exp2"])
        for o in r["refalt"]:
            if isinstance(o, str) or sorted(map(list, {tuple(t) for t in o})) != exp2:
                ctx.violation({"world": key, "template": "refinement with an alternative inside it that introduces a variable",
                               "expected_instances": exp2, "observed_per_domain_order": r["refalt"]},
                              note="branches that conclude over different variable sets: the inferred instances are not one per "
                                   "triggering binding")
                break
        for o in r["refalt_dup"]:
            if isinstance(o, str) or sorted(map(list, {tuple(t) for t in o})) != exp2:
                ctx.violation({"world": key, "template": "refinement with an alternative inside it; the base condition joins a further variable "
                                                         "with two matches (two base bindings share the conclusion values)",
                               "expected_instances": exp2, "observed_per_domain_order": r["refalt_dup"]},
                              note="two base bindings that share the values of the conclusion variables: the refinement chain no longer "
                                   "overrides its parent / the inferred instances differ from those of the rule without the extra variable")
                break
    # the coverage index the selectors use for "already concluded for this binding" (SeenSet.tla)
    ctx.run_tlc("SeenSet", "SeenSet_mc.cfg", expect="ok")
    ctx.run_tlc("SeenSet", "SeenSet_mc_nokeys.cfg", expect="ok")
    for sw in ("ExactOnly", "ClearKeepsAll"):
        ctx.run_tlc("SeenSet", f"SeenSet_sw_{sw}.cfg", expect="violation")
    ss_cases = []
    for cfg in ("SeenSet_gen.cfg", "SeenSet_gen_nokeys.cfg"):
        ss_cases += [j for j in ctx.run_tlc("SeenSet", cfg, expect="ok").json_lines() if isinstance(j, dict) and "h" in j]
    if len(ss_cases) != 2 * 6859:
        raise MachineryError(f"SeenSet_gen: expected 13718 behaviours, got {len(ss_cases)}")
    ss_results = replay("seenset", ss_cases)
    ctx.replayed += len(ss_cases)
    for c, r in zip(ss_cases, ss_results):
        key = ["seenset", c["with_keys"], [(s["op"], sorted((k, s["a"][k]) for k in s["keys"])) for s in c["h"]]]
        ctx.case(key, any(s["op"] == "check" for s in c["h"][1:]))
        for k, (s, o) in enumerate(zip(c["h"], r["obs"])):
            if s["op"] == "check" and o != s["r"]:
                ctx.violation({"seenset": key, "step": k, "expected_covered": s["r"], "observed": o},
                              note="SeenSet.check disagrees with 'some stored constraint is a sub-assignment'")
                break
            if s["op"] != "check" and o is not None:
                ctx.violation({"seenset": key, "step": k, "observed": o}, note="SeenSet operation raised")
                break
    ctx.cov["seenset_behaviours"] = len(ss_cases)
    ctx.cov["programs"] = len(progs)
    ctx.cov["replays_meeting_reference"] = meets
    ctx.exhaustive = True
    ctx.assumptions = ["branch conditions and the base condition are unary predicates of one variable; the world has one element per truth vector of all of them",
                       "for elements on which several sibling refinements of one node hold the statement does not say which wins: not compared"]
    return ctx.finish()
