"""C02 - no duplicated or dropped solutions in conjunctive / else-if queries (EQLCore.tla, Bag)."""
from collections import Counter
from harness.core import Ctx, replay, MachineryError
from harness.checks.c01 import conditions, size


def main():
    ctx = Ctx("C02", "model_checking")
    thorough = ctx.tier == "thorough"
    ctx.rule = ("TLC enumerates the conditions of EQLCore.tla (logic family exhaustively to depth 2, logic6/access families "
                "sampled) that lie in the negation-normal conjunctive / else-if fragment (InFragment) and computes Bag = one row "
                "per satisfying assignment of ALL the query's variables, for every {empty, singleton, complete} domain "
                "assignment and every selection; each case is evaluated and compared as a multiset; for half of the conditions "
                "the(...) and an(..., Exactly(|Bag|)) are evaluated as well. Non-trivial = a fragment condition with a "
                "connective and a non-empty bag; distinct by (condition, domains, selection).")
    ctx.run_tlc("EQLCore", "EQLCore_mc_logic_q.cfg", expect="ok", seed=ctx.seed + 1)
    fams = [("logic", "EQLCore_gen_logic.cfg", 3000), ("logic6", "EQLCore_gen_logic6.cfg" if thorough else "EQLCore_gen_logic6_q.cfg", 400),
            ("access", "EQLCore_gen_access.cfg" if thorough else "EQLCore_gen_access_q.cfg", 400),
            ("poset", "EQLCore_gen_poset.cfg" if thorough else "EQLCore_gen_poset_q.cfg", 350)]
    cases = []
    for fam, cfg, minimum in fams:
        for i, c in enumerate(conditions(ctx, cfg, minimum)):
            if not c["frag"]:
                continue
            c["variant"] = i % 6
            c["falsy"] = i % 5 == 3        # every fifth condition runs on a world of falsy objects
            c["family"] = fam
            c["c02"] = (len(cases) % 2 == 0)
            # selected attribute expressions are C01's business (row consistency, finding F02)
            c["cases"] = [cs for cs in c["cases"] if "x.a" not in cs["sel"]]
            for cs in c["cases"]:
                cs["n"] = sum(k for _, k in cs["bag"])
            cases.append(c)
    if len(cases) < 300:
        raise MachineryError(f"only {len(cases)} fragment conditions")
    results = replay("eql", cases)
    ctx.replayed = sum(len(c["cases"]) for c in cases)
    for c, r in zip(cases, results):
        for cs, rows, err, ext in zip(c["cases"], r["rows"], r["errors"], r["extra"]):
            exp = Counter({tuple(row): k for row, k in cs["bag"]})
            got = Counter(tuple(x) for x in rows)
            key = [c["cond"], cs["dom"], cs["sel"]]
            ctx.case(key, size(c["cond"]) > 1 and bool(exp),
                     sample={"family": c["family"], "cond": c["cond"], "dom": cs["dom"], "sel": cs["sel"],
                             "expected_bag": sorted([list(k), v] for k, v in exp.items())})
            problems = []
            if err:
                problems.append("exception " + err)
            if exp != got:
                dup = {k: (got[k], exp[k]) for k in got if got[k] > exp.get(k, 0)}
                lost = {k: (got.get(k, 0), exp[k]) for k in exp if got.get(k, 0) < exp[k]}
                problems.append(f"multiplicities differ: too many {dup}, too few {lost}")
            if ext:
                n = cs["n"]
                want_the = "NoSolutionFound" if n == 0 else ("MultipleSolutionFound" if n > 1 else list(next(iter(exp))))
                if ext["the"] != want_the:
                    problems.append(f"the(...) gave {ext['the']}, expected {want_the} ({n} solutions)")
                if ext["exactly"] != n:
                    problems.append(f"an(..., Exactly({n})) gave {ext['exactly']}")
                if ext["shared_vars_sequence"] != [want_the, n, want_the]:
                    problems.append(f"the / an / the over the same variables gave {ext['shared_vars_sequence']}, expected {[want_the, n, want_the]}")
            if problems:
                ctx.violation({"family": c["family"], "cond": c["cond"], "dom": cs["dom"], "sel": cs["sel"], "variant": c["variant"],
                               "expected_bag": sorted([list(k), v] for k, v in exp.items()),
                               "observed_bag": sorted([list(k), v] for k, v in got.items()), "problems": problems},
                              note="number of results differs from the number of satisfying assignments")
    # domains of VALUES (EQLScalar.tla): integers with colliding hashes and the falsy 0, value objects with equal twins; each
    # query object is evaluated three times and every evaluation must give exactly one row per satisfying assignment
    sc = []
    for cfg in ("EQLScalar_gen_int.cfg", "EQLScalar_gen_obj.cfg"):
        sc += [j for j in ctx.run_tlc("EQLScalar", cfg, expect="ok").json_lines() if isinstance(j, dict) and "cond" in j]
    if len(sc) != 160:
        raise MachineryError(f"EQLScalar_gen: expected 160 conditions, got {len(sc)}")
    for c, r in zip(sc, replay("scalar", sc)):
        for cs, o in zip(c["cases"], r["cases"]):
            ctx.replayed += 1
            exp = sorted(list(x) for x in cs["exp"])
            key = ["scalar", c["mode"], c["cond"], cs["dx"], cs["dy"]]
            ctx.case(key, bool(exp), sample={"family": "scalar", "mode": c["mode"], "cond": c["cond"], "expected_rows": exp[:6]})
            if o.get("error") or any(e != exp for e in o["evals"]):
                ctx.violation({"family": "scalar", "mode": c["mode"], "cond": c["cond"], "dx": cs["dx"], "dy": cs["dy"], "expected_rows": exp,
                               "observed_per_evaluation": o.get("evals"), "error": o.get("error")},
                              note="a domain of values (colliding hashes / equal twins / falsy 0): rows duplicated or dropped, on the first or a later evaluation")
    ctx.cov["fragment_conditions"] = len(cases)
    ctx.assumptions = ["domains are duplicate-free sequences", "one result per satisfying assignment of all the query's variables, "
                       "including variables that are not selected"]
    return ctx.finish()
