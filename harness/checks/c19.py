"""C19 - unresolvable JSON type tags fail with the documented serialisation errors only (JsonSer.tla, part tag)."""
from harness.core import Ctx, replay, MachineryError


def main():
    ctx = Ctx("C19", "exploration")
    ctx.rule = ("JsonSer.tla models tag resolution as a 7-stage machine with one failure transition per stage; TLC enumerates the 24 "
                "tag classes (every JSON type, falsy values, missing/leading/trailing/double dots, unknown and broken modules, "
                "attributes that are functions / modules / type variables / plain classes / subclasses of registered types / serialisable / registered classes) "
                "with the documented outcome of each; every class is instantiated by 2-4 concrete tags sent through real JSON "
                "text into from_json. Non-trivial = a tag class that passes the first stage; distinct by concrete tag.")
    ctx.run_tlc("JsonSer", "JsonSer_mc_tag.cfg", expect="ok")
    for sw in ("NoTypeCheck", "ImportOnlyNotFound", "NoClassCheck", "MroRegistryLookup"):
        ctx.run_tlc("JsonSer", f"JsonSer_sw_{sw}.cfg", expect="violation")
    classes = [j for j in ctx.run_tlc("JsonSer", "JsonSer_gen_tag.cfg", expect="ok").json_lines() if isinstance(j, dict) and "tag" in j]
    if len(classes) != 27:
        raise MachineryError(f"expected 27 tag classes, got {len(classes)}")
    results = replay("jsonser", [{"part": "tag", "tag": c["tag"]} for c in classes], shards=4)
    for c, r in zip(classes, results):
        for t in r["tags"]:
            ctx.replayed += 1
            key = [c["tag"], repr(t["tag"])]
            ctx.case(key, c["expected"] != "MissingTypeError", sample={"class": c["tag"], "tag": t["tag"], "observed": t["outcome"],
                                                                      "documented": c["expected"]})
            ok = t["outcome"] == c["expected"]
            if c["expected"] == "instance" and ok:
                ok = t["type"] == t["tag"]           # an instance of exactly the named class
            if not ok:
                ctx.violation({"tag_class": c["tag"], "tag": t["tag"], "documented": c["expected"], "observed": t},
                              note="an unrelated exception escaped, the wrong error was raised, or a wrongly typed object was returned")
    ctx.exhaustive = True
    ctx.assumptions = ["which documented error identifies which problem follows the stage order of JsonSer.tla"]
    return ctx.finish()
