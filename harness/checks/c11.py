"""C11 - pattern matching is equivalent to the explicit query it abbreviates (Match.tla)."""
from harness.core import Ctx, replay, MachineryError


def main():
    ctx = Ctx("C11", "exploration")
    ctx.rule = ("TLC enumerates the patterns of Match.tla over Cabinet(container, drawers): container = literal | nested match by "
                "type (Container, supertype Body) and name | nothing; drawers = literal (membership) | nested match on the "
                "elements' handle / container names | a field the elements' value equality ignores | match_any(S) | match_all(S) | nothing - on a world with value-equal twins, "
                "an empty collection and equal collections - plus type-filtering nested matches on a base-typed collection "
                "(FruitBox.fruits: List[Body] with match(Apple)); with MatchSem for each. Every pattern is evaluated through "
                "entity_matching in two domain orders, again after an in-place edit of a collection (same query object), over an explicitly empty domain, and "
                "with select(...) on the container and select(Drawer)(...) on the drawers collection, and once on the same world with "
                "two falsy cabinets (objects whose __len__ is 0). Non-trivial = a pattern constraining at least one attribute with a "
                "non-empty expected set; distinct by (pattern, order).")
    pats = [j for j in ctx.run_tlc("Match", "Match_gen.cfg", expect="ok").json_lines() if isinstance(j, dict) and "pc" in j]
    if len(pats) != 170:
        raise MachineryError(f"expected 170 patterns, got {len(pats)}")
    cases = []
    for p in pats:
        if p["pd"] == ["match", "*", "*"]:
            continue        # an unconstrained nested match on a collection generates no condition: not settled by the statement
        for rev in (False, True):
            cases.append({"pc": p["pc"], "pd": p["pd"], "exp": p["exp"], "exp2": p["exp2"], "selc": p["selc"], "seld": p["seld"], "reverse": rev})
        # the same world with two of the cabinets being falsy objects (a class with __len__ returning 0)
        cases.append({"pc": p["pc"], "pd": p["pd"], "exp": p["exp"], "exp2": p["exp2"], "selc": p["selc"], "seld": p["seld"], "reverse": False,
                      "falsy": True})
        for f in p["fruit"]:
            for rev in (False, True):
                cases.append({"p": f["p"], "exp": f["exp"], "reverse": rev})
    results = replay("matchq", cases, shards=8)
    ctx.replayed = len(cases)
    for c, r in zip(cases, results):
        key = [c.get("pc"), c.get("pd"), c.get("p"), c["reverse"]] + (["falsy"] if c.get("falsy") else [])
        ctx.case(key, bool(c["exp"]), sample={"pattern": key, "expected": sorted(c["exp"]), "observed": r.get("cabinets")})
        problems = []
        if r.get("error"):
            problems.append("exception " + r["error"])
        elif set(r["cabinets"]) != set(c["exp"]):
            problems.append(f"matched {sorted(set(r['cabinets']))}, pattern semantics say {sorted(c['exp'])}")
        elif "exp2" in c and set(r.get("cabinets_after_edit", [])) != set(c["exp2"]):
            problems.append(f"after k2.drawers.append(d2) the same query matched {sorted(set(r.get('cabinets_after_edit', [])))}, "
                            f"pattern semantics say {sorted(c['exp2'])}")
        if not problems and r.get("cabinets_empty_domain"):
            problems.append(f"with an explicitly empty domain the pattern matched {r['cabinets_empty_domain']}")
        f02 = False
        if "selected" in r or "select_error" in r:
            got = {tuple(x) for x in r.get("selected", [])}
            exp = {tuple(x) for x in c["selc"]}
            if r.get("select_error"):
                problems.append("select: exception " + r["select_error"])
            elif got != exp:
                if c["pc"][2] == "*" and c["pd"] == ["none"] and exp <= got:
                    f02 = True      # no condition at all between the two selected expressions: cross product (finding F02)
                else:
                    problems.append(f"select reported {sorted(got)}, expected the matched cabinets with their own containers {sorted(exp)}")
        if "selected_drawers" in r or "select_drawers_error" in r:
            got = {tuple(x) for x in r.get("selected_drawers", [])}
            exp = {tuple(x) for x in c["seld"]}
            if r.get("select_drawers_error"):
                problems.append("select on the collection attribute: exception " + r["select_drawers_error"])
            elif got != exp:
                problems.append(f"select(Drawer) on the collection attribute reported {sorted(got)}, expected each matched cabinet with its "
                                f"matching drawers {sorted(exp)}")
        if problems:
            ctx.violation({"pattern": key, "observed": r, "problems": problems}, note="match result differs from the pattern's meaning")
        elif f02:
            ctx.known_finding("C11-F02", {"pattern": key})
    ctx.exhaustive = True
    ctx.assumptions = ["results are compared as sets of domain elements (identity)",
                       "a bare collection literal against a collection attribute and an unconstrained nested match on a collection are not generated"]
    return ctx.finish()
