"""C18 - JSON serialisation round-trips polymorphic objects through real JSON text (JsonSer.tla, part value)."""
from harness.core import Ctx, replay, MachineryError


def depth(v):
    if v[0] == "list":
        return 1 + max([depth(x) for x in v[1]] + [0])
    if v[0] == "obj":
        return 1 + max(depth(v[2]), depth(v[3]))
    return 0


def main():
    ctx = Ctx("C18", "exploration")
    thorough = ctx.tier == "thorough"
    ctx.rule = ("TLC enumerates the value SHAPES of JsonSer.tla: all 343 shapes of nesting depth <= 1 and seeded random subsets of "
                "depth 2 and 3 (None, booleans, int, float, str, UUID, two registered third-party types of which one subclasses "
                "the other, objects of classes A, B<:A, C<:B with two value fields, lists of up to two values); the harness "
                "concretises each shape twice with leaf values from an adversarial pool (2**63, 2**100, -0.0, 5e-324, inf, '', "
                "NUL, astral characters, tag-like strings) or a seeded sampler, serialises with to_json + json.dumps, parses with "
                "json.loads + from_json and compares deeply with exact classes; every object dict must carry its fully "
                "qualified type tag. Each value also passes the (de)serialiser that create_engine installs for JSON columns: stored, loaded, the "
                "loaded copy modified in memory, loaded again. Non-trivial = a shape of depth >= 1; distinct by shape.")
    cfgs = [("JsonSer_gen_val1.cfg", 300), ("JsonSer_gen_val2.cfg", 1500), ("JsonSer_gen_val3.cfg", 1500)]
    cases = []
    for cfg, minimum in cfgs:
        shapes = [j["v"] for j in ctx.run_tlc("JsonSer", cfg, expect="ok", seed=ctx.seed + 5).json_lines() if isinstance(j, dict) and "v" in j]
        if len(shapes) < minimum:
            raise MachineryError(f"{cfg}: only {len(shapes)} shapes")
        if not thorough and len(shapes) > 1500:
            shapes = shapes[:1500]
        for i, s in enumerate(shapes):
            cases.append({"part": "value", "v": s, "seed": ctx.seed * 100003 + len(cases), "reps": 4 if thorough else 2})
    results = replay("jsonser", cases)
    for c, r in zip(cases, results):
        for o in r["value"]:
            ctx.replayed += 1
            bad = o.get("error") or o.get("diff") or o.get("tag")
            if bad:
                ctx.violation({"shape": c["v"], "seed": c["seed"], "observed": o}, note="round trip through JSON text is not the identity")
        ctx.case(c["v"], depth(c["v"]) >= 1, sample={"shape": c["v"]})
    ctx.assumptions = ["leaf VALUES are pooled/sampled by the harness, not enumerated by the model (TLC has no floats / big ints / unicode)",
                       "NaN is excluded (it is not equal to itself); tuples and sets are outside the statement's value grammar"]
    return ctx.finish()
