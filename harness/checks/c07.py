"""C07 - an EQL query translated to SQL selects the same entities as in-memory evaluation (EQLCore.tla, family sql)."""
import json
from harness.core import Ctx, replay, MachineryError
from harness.checks.c01 import conditions, size

FAIL = {"NoSolutionFound": "none", "NoResultFound": "none", "MultipleSolutionFound": "many", "MultipleResultsFound": "many"}


def main():
    ctx = Ctx("C07", "translation_validation")
    thorough = ctx.tier == "thorough"
    ctx.rule = ("Programs = the conditions of EQLCore.tla's translatable vocabulary (attribute vs literal incl. an Optional attribute "
                "holding None, a path across a relationship, membership in a literal collection, a comparison between attributes "
                "of two variables; all and/or/not trees of depth 1 and a seeded sample of depth 2) with the reference answer set "
                "computed by TLC on the persisted world. Each program is evaluated in memory over the persisted objects and "
                "translated with eql_to_sql and executed on the SQLite database holding them (once with the relationship path to "
                "another table, and a sub-sample with a self-referential path); an(...) and the(...). Joins between two variables of different "
                "classes through relationship attributes (SqlJoin.tla, 46 patterns): one row per binding, the() outcome. Over a second database "
                "(strings with LIKE wildcards, integers other than 0 / 1, an Optional integer): membership in collections and texts, a bare "
                "non-boolean attribute as a condition, the tests `!= None` / `== None`; oracle = in-memory evaluation. A translation is either "
                "rejected with an EQLTranslationError or must select exactly the reference rows. Non-trivial = an accepted program "
                "with a connective; distinct by (program, variant).")
    conds = conditions(ctx, "EQLCore_gen_sql_d1.cfg", 200) + conditions(ctx, "EQLCore_gen_sql.cfg" if thorough else "EQLCore_gen_sql_q.cfg", 1000)
    cases = []
    for i, c in enumerate(conds):
        cases.append({"cond": c["cond"], "exp": sorted(x[0] for x in c["cases"][0]["exp"]), "self_ref": False})
        if "attr2" in json.dumps(c["cond"]) and i % 4 == 0:
            cases.append({"cond": c["cond"], "exp": sorted(x[0] for x in c["cases"][0]["exp"]), "self_ref": True})
    # chains of three segments that reach one class through two different relationships (oracle: in-memory evaluation)
    atoms = [("back.other.tag", 0), ("back.other.tag", 1), ("m.ref.other.tag", 0), ("m.ref.other.tag", 1), ("back.a", 0), ("m.ref.a", 1),
             ("tag", 1), ("back.other.tag2", 1), ("m.ref.b", 0)]
    chain_cases = [{"atoms": [a], "op": "and"} for a in atoms]
    chain_cases += [{"atoms": [a, b], "op": op} for a in atoms for b in atoms if a != b for op in ("and", "or")]
    chain_cases += [{"unmapped_tag": t, "atoms": [["unmapped-class variable", t]], "op": "and"} for t in (0, 1)]
    satoms = ["in1", "in1t", "in2", "inC", "inE", "eqC", "neC1", "c1", "subT", "conT", "subU", "a0", "b1"]
    chain_cases += [{"satoms": [a], "op": "and"} for a in satoms]
    chain_cases += [{"satoms": [a, b], "op": op} for a in satoms[:11] for b in satoms if a != b for op in ("and", "or")]
    natoms = ["bareA", "bareB", "wSet", "wNone"]
    chain_cases += [{"satoms": [a], "op": "and"} for a in natoms]
    chain_cases += [{"satoms": [a, b], "op": op} for a in natoms for b in natoms + ["a0", "b1", "eqC", "in2"] if a != b for op in ("and", "or")]
    # joins between two variables of different classes (SqlJoin.tla: the expected bag per pattern comes from TLC)
    ctx.run_tlc("SqlJoin", "SqlJoin_mc.cfg", expect="ok")
    ctx.run_tlc("SqlJoin", "SqlJoin_sw_CollapsePartners.cfg", expect="violation")
    join_cases = [j for j in ctx.run_tlc("SqlJoin", "SqlJoin_gen.cfg", expect="ok").json_lines() if isinstance(j, dict) and "join" in j]
    if len(join_cases) != 46:
        raise MachineryError(f"expected 46 join patterns, got {len(join_cases)}")
    n_main = len(cases)
    results = replay("eqlsql", cases + chain_cases + join_cases)
    ctx.replayed = len(cases) + len(chain_cases) + len(join_cases)
    for c, r in zip(join_cases, results[n_main + len(chain_cases):]):
        o = r["joins"]
        exp = sorted(n for n, k in c["bag"].items() for _ in range(k))
        key = ["join", c["join"], c["filter"], c["sel"]]
        ctx.case(key, c["partners"] > 1 and "rejected" not in o, sample={"pattern": key, "expected_bag": exp, "memory": o.get("memory"), "sql": o.get("sql"),
                                                                         "rejected": o.get("rejected")})
        problems = []
        if "rejected" not in o:
            if "sql_error" in o:
                problems.append("translation accepted but execution raised " + o["sql_error"])
            elif o.get("sql") != exp:
                problems.append(f"SQL reports {o.get('sql')}, one row per (a, c) binding is {exp} (in memory: {o.get('memory', o.get('memory_error'))})")
        if "the_rejected" not in o and not problems:
            want = {"one": "one", "NoSolutionFound": "none", "MultipleSolutionFound": "many"}[c["the"]]
            got = FAIL.get((o.get("the_sql_error") or "").split(":")[0], "one" if "the_sql" in o else o.get("the_sql_error"))
            if got != want:
                problems.append(f"the(...): SQL outcome {got}, the bindings say {want} (in memory: {o.get('the_memory', o.get('the_memory_error'))})")
        if problems and c["join"] in ("one_back", "one_a_back_a"):
            # the join runs across the self-referential relationship `one` (generated without remote_side): finding F09
            ctx.known_finding("C07-F09", {"join": key, "expected_bag": exp, "observed": o, "problems": problems})
        elif problems:
            ctx.violation({"join": key, "expected_bag": exp, "observed": o, "problems": problems},
                          note="a join between two variables: the translated SQL does not report one row per binding / the() disagrees")
        elif "memory" in o and o["memory"] != exp:
            ctx.drift += 1          # the in-memory evaluation differs from the reference: C01's business, not C07's
    results = results[:n_main + len(chain_cases)]
    for c, r in zip(chain_cases, results[n_main:]):
        o = r["chains"]
        atoms_ = c.get("atoms") or c.get("satoms")
        key = ["chains" if "atoms" in c else "strings", atoms_, c["op"]]
        ctx.case(key, len(atoms_) > 1 and "rejected" not in o, sample={"family": key[0], "atoms": atoms_, "op": c["op"], "memory": o.get("memory"),
                                                                      "sql": o.get("sql")})
        if "rejected" in o or "memory_error" in o:
            continue
        if "unmapped_tag" in c:
            if "sql_error" in o or o.get("sql"):
                ctx.violation({"chains": c, "observed": o}, note="a variable over an unmapped class was translated and selected rows of a mapped ancestor")
            continue
        if "sql_error" in o or o.get("sql") != o.get("memory"):
            ctx.violation({"chains": c, "observed": o}, note="an accepted translation of a query with relationship chains selects other rows than in-memory evaluation")
    results = results[:n_main]
    rejected = 0
    for c, r in zip(cases, results):
        s = json.dumps(c["cond"])
        a = r["an"]
        key = [c["cond"], c["self_ref"]]
        accepted = "rejected" not in a
        ctx.case(key, accepted and size(c["cond"]) > 1, sample={"cond": c["cond"], "self_referential_path": c["self_ref"], "reference": c["exp"],
                                                               "memory": a.get("memory"), "sql": a.get("sql"), "rejected": a.get("rejected")})
        if not accepted:
            rejected += 1
            continue
        problems = []
        if "sql_error" in a:
            problems.append("translation accepted but execution raised " + a["sql_error"])
        elif a["sql"] != c["exp"]:
            problems.append(f"SQL selected {a['sql']}, the satisfying entities are {c['exp']} (in memory: {a.get('memory', a.get('memory_error'))})")
        if not problems:
            # the(...) fails in both worlds for the same queries
            t = r["the"]
            mem = FAIL.get(t.get("memory_error"), t.get("memory"))
            sql = "rejected" if "rejected" in t else FAIL.get((t.get("sql_error") or "").split(":")[0], t.get("sql"))
            if sql != "rejected" and mem != sql:
                problems.append(f"the(...): in memory {mem}, SQL {sql}")
        if not problems:
            continue
        info = {"cond": c["cond"], "self_referential_path": c["self_ref"], "reference": c["exp"], "observed": a, "problems": problems}
        missing = set(c["exp"]) - set(a.get("sql") or [])
        extra = set(a.get("sql") or []) - set(c["exp"])
        if '"y"' in s:
            ctx.known_finding("C07-F12", info)
        elif c["self_ref"]:
            ctx.known_finding("C07-F09", info)
        elif '"w"' in s and "sql" in a and not extra and missing <= {"o3"}:
            ctx.known_finding("C07-F25", info)
        else:
            ctx.violation(info, note="an accepted translation selects other entities than the query means")
    ctx.cov["rejected_with_EQLTranslationError"] = rejected
    ctx.assumptions = ["the reference answer (TLC) arbitrates; in-memory deviations from it are C01's business",
                       "None is modelled as a value unequal to every literal (Python's None under == and !=)",
                       "which of two self-referential links to one target survives the commit is arbitrary (finding F09): the number of "
                       "cases attributed to C07-F09 varies by a few between runs; nothing else depends on those links"]
    return ctx.finish()
