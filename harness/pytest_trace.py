"""pytest plugin (load with -p harness.pytest_trace): record the H1 registry events of the repository's own tests, one
trace per SymbolGraph object, as ndjson into $VERIF_TRACE_OUT. Needs KRROOD_VERIF=1."""
import json
import os

import krrood.verif_hooks as vh

GRAPHS = {}      # id of the live SymbolGraph object -> its trace
TRACES = []
CURRENT = ["<import>"]


def sink(ev, fields):
    g = fields.get("graph")
    if ev == "clear":
        GRAPHS.pop(g, None)       # the address of a cleared graph may be reused by the next one
        return
    if ev not in ("add_node", "remove_node", "add_relation"):
        return
    if g not in GRAPHS:
        GRAPHS[g] = {"name": f"g{len(TRACES)}", "tests": [], "ev": []}
        TRACES.append(GRAPHS[g])
    t = GRAPHS[g]
    if not t["tests"] or t["tests"][-1] != CURRENT[0]:
        t["tests"].append(CURRENT[0])
    d = {"a": ev}
    if ev == "add_node":
        d.update(idx=fields["idx"], n=fields["n"], cls=fields["cls"], o=0)
    elif ev == "remove_node":
        d.update(idx=fields["idx"], n=fields["n"], dead=bool(fields["dead"]))
    else:
        d.update(s=fields["s"], t=fields["t"], f=f'{fields["owner"]}.{fields["f"]}', added=bool(fields["added"]), live=bool(fields["live"]))
    t["ev"].append(d)


vh.install(sink)


def pytest_runtest_setup(item):
    CURRENT[0] = item.nodeid


def pytest_sessionfinish(session, exitstatus):
    out = os.environ.get("VERIF_TRACE_OUT")
    if not out:
        return
    with open(out, "w") as f:
        for t in TRACES:
            f.write(json.dumps({"name": t["name"], "tests": t["tests"][:5], "ev": t["ev"]}) + "\n")
