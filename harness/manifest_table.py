"""Single source for MANIFEST.json (bin/mkmanifest writes it)."""
ALL = [f"C{i:02d}" for i in range(1, 21)]

CHECKS = {
    "C09": dict(
        engine="Quantifier",
        category="model_checking",
        text=("Quantifier.tla: TLC checks that the counter protocol (one Produce per solution with the incremental "
              "assertion, one Finish with the final assertion) yields exactly the reference observation sequence "
              "Expected(kind, lower, upper, n) and never yields above the upper bound, for every constraint with bounds "
              "in -1..5 and every n in 0..6; three deviation switches are each refuted by TLC (non-vacuity). Every one of "
              "the 504 behaviours is replayed step by step (one next() per model step) on an(entity), an(set_of), "
              "the(...) in four query forms. Thorough adds the Apalache inductive invariant for unbounded n."),
        design_ref="DESIGN.md §4 C09",
        note=("Trusted: TLC/Apalache, the replayer's projection (k-th distinct solution -> \"k\", exception class name). "
              "Bounds above 5 / n above 6 are covered by the inductive invariant on the model only."),
        technique="TLA+ counter protocol model-checked with TLC, behaviours replayed per next() on the real iterators; Apalache inductive invariant",
    ),
}

CHECKS["C13"] = dict(
    engine="SymbolGraph",
    category="model_checking",
    text=("SymbolGraph.tla: the registry as implemented (node indices recycled LIFO, per-class wrapper lists, id-keyed instance "
          "index, relation index) next to CPython reclamation semantics (refcount vs cycle collector); TLC checks that every "
          "query returns each live tracked instance of the type exactly once for all histories of create/drop/collect/sweep/"
          "relate/clear/query (4 objects, 7 steps quick / 9 thorough) and refutes the DupSubclassList switch. Every enumerated "
          "history with a non-empty query (3 objects, 5 steps; thorough 6) is replayed on the real registry with gc disabled and "
          "each query result compared with the harness's weak-reference census; the H1 hook events of every replay are "
          "validated against SymbolGraph_Trace.tla."),
    design_ref="DESIGN.md §4 C13",
    note=("Trusted: TLC, CPython refcounting with gc disabled, the weak-reference census as the meaning of 'currently exist'. "
          "Survivors of SymbolGraph().clear() are unspecified (may appear at most once)."),
    technique="TLA+ registry model checked with TLC; TLC-enumerated histories replayed on the real SymbolGraph; H1 event traces validated against the trace spec",
)

CHECKS["C14"] = dict(
    engine="SymbolGraph",
    category="model_checking",
    text=("SymbolGraph.tla: TLC checks that after p.works_for = c between two live instances the three derived relations are "
          "in the graph and in the managed fields for every history (4 objects, 7/9 steps) with the registry purging removed "
          "nodes, and refutes the StaleRelationIndex and PopIdOfNone switches (the 10-step recycled-index history). Every "
          "phased build/destroy/sweep/rebuild history up to 11 steps and a sample of the unphased 8-step histories are replayed "
          "on the real registry; after every assertion relations and fields are compared with the model's facts, a final "
          "domain-less audit query checks that no instance grew a second node, and the H1 event trace of every replay is "
          "validated against SymbolGraph_Trace.tla (index recycling, relation index, 'relation between live instances not "
          "recorded', 'second node for a registered instance'). Prefix x suffix: Ontology.tla behaviours (incl. the CEO role) "
          "are run after a randomly ordered earlier population of the same shape lived, was related and died (node indices "
          "recycled); every step must equal the closure."),
    design_ref="DESIGN.md §4 C14",
    note=("Trusted: TLC, CPython refcounting with gc disabled. Node-index reuse is forced by the histories; address reuse "
          "cannot be forced from Python (the evidence counts how often it was observed)."),
    technique="TLA+ registry model checked with TLC; TLC-enumerated prefix/suffix histories replayed on the real SymbolGraph; H1 event traces validated against the trace spec",
)

CHECKS["C15"] = dict(
    engine="Ontology",
    category="model_checking",
    text=("Ontology.tla: Closure(asserted) (least fixpoint of sub-property / role-taker sub-property / inverse / transitive "
          "rules) against AddRel, the recursion of add_to_graph that stops at existing edges; TLC checks edges = Closure for "
          "every order of up to 4 assertions on the university model and 3 on the /verif family model and refutes four "
          "deviation switches (transitive expansion only for asserted relations, one direction only, no inverse of inferred, "
          "direct super-property only). Every 3-assertion behaviour (sampled in quick) is replayed on real instances in four "
          "write forms; after every step relations() and all managed fields are compared with the closure; the H1/H3 relation "
          "events of every replay are validated against Ontology_Trace.tla (each inferred relation derivable by one rule, "
          "closed at quiescence)."),
    design_ref="DESIGN.md §4 C15",
    note=("Trusted: TLC, the projection of instances to names. Single-valued fields are written once per subject; container "
          "fields are compared as sets."),
    technique="TLA+ closure vs incremental-inference model checked with TLC; behaviours replayed on real descriptor-managed fields; relation-event traces validated against the trace spec",
)

CHECKS["C16"] = dict(
    engine="FieldWrites",
    category="model_checking",
    text=("FieldWrites.tla: Python semantics of 13 write forms on a list- and a set-valued managed field with a monotone fact "
          "base (layer R) against the setter/mutator algorithm (layer I: snapshot, clear, re-add; hooked mutators); TLC checks "
          "KeepsData and InfersAlike for all sequences of 3 writes and refutes ClearBeforeCopy, CopyThroughSet and UnhookedExtend. "
          "All 10 917 two-write sequences and a seeded sample of five-write sequences are replayed on a real instance with "
          "list/tuple/generator/iterator arguments; after every write the exact list, the set, the graph relations and the "
          "inverse fields of the elements are compared."),
    design_ref="DESIGN.md §4 C16",
    note=("Trusted: TLC, the transcription of Python list/set semantics into TLA+ (InsertAt, SetAt, Slice). The fact base is "
          "monotone by design (no retraction)."),
    technique="TLA+ model of field writes checked with TLC; enumerated and simulated write sequences replayed on real descriptor-managed fields",
)

CHECKS["C20"] = dict(
    engine="SymbolGraph",
    category="model_checking",
    text=("SymbolGraph.tla carries two notions of death side by side: deadR (only the user's references keep an instance alive: "
          "refcount on drop, cycles on collect - the property) and dead (as implemented: evaluated queries pin what their "
          "variables ranged over); TLC checks dead = deadR and the registry invariant 'after a sweep nothing refers to a removed "
          "node' with the deviation switches off and refutes StrongExprTable and PopIdOfNone. Every enumerated history with a "
          "death (domain-less, explicit-domain and partially consumed queries included) is replayed with gc disabled and the "
          "weak-reference census compared with liveR after every step; a census that differs is attributed to the open "
          "finding only if it equals the as-implemented prediction exactly. Query-free histories are run as loop bodies and "
          "the census of krrood-typed objects, graph nodes and relations must be flat."),
    design_ref="DESIGN.md §4 C20",
    note=("Trusted: TLC, CPython refcounting with gc disabled, gc.get_objects() as the census of krrood-held objects. Open "
          "finding C20-F24 (expression tables pin queried instances) is reported as KNOWN-FINDING, never as a pass."),
    technique="TLA+ lifetime/registry model checked with TLC; enumerated histories replayed with a weak-reference census; as-implemented model used for finding attribution",
)

CHECKS["C01"] = dict(
    engine="EQLCore",
    category="model_checking",
    text=("EQLCore.tla: first-order reference semantics (Sat / Answers over nested-tuple expressions, complete 4-object world) "
          "next to Ev, a big-step model of the generator pipeline (bound-side-first comparator, AND / ElseIf / Union threading "
          "of bindings and falsity, Not node vs De Morgan over unions); TLC checks Rows(Ev) = Answers for the and/or/not trees "
          "of depth 2 over the logic and access vocabularies, algebraic sanity of the reference (double negation, De Morgan, "
          "empty domains) and refutes the NegUnionFlipsEach switch. Per condition TLC prints the expectation for every "
          "(domain assignment, selection) case; ~80 000 cases per quick run (logic family exhaustive, logic6 / access / "
          "quantifier families sampled by seed) are built through the public API and evaluated, rows compared as sets. The "
          "quantifier family (exists / for_all with their own bound variable) is reference-only."),
    design_ref="DESIGN.md §4 C01",
    note=("Trusted: TLC, the concretisation (abstract condition -> public API calls) and projection (objects -> ids). Cases the "
          "statement does not settle (empty-domain condition variable outside the conjunctive/else-if fragment) are not generated. "
          "Open finding C01-F05 is attributed by a syntactic signature plus 'missing rows only'."),
    technique="TLA+ reference semantics + pipeline model checked with TLC; TLC-computed expectations replayed on the real query engine",
)
CHECKS["C02"] = dict(
    engine="EQLCore",
    category="model_checking",
    text=("EQLCore.tla Bag: one row per satisfying assignment of all the query's variables, for conditions in the "
          "negation-normal conjunctive / else-if fragment (InFragment); the pipeline model is checked against Answers by TLC. "
          "~49 000 fragment cases per quick run are evaluated and compared as multisets; for half of the conditions the(...), "
          "an(..., Exactly(|Bag|)) and a the / an / the sequence over the same variables must see the true number of solutions."),
    design_ref="DESIGN.md §4 C02",
    note="Trusted: TLC, concretisation and projection as for C01. Domains are duplicate-free sequences.",
    technique="TLA+ bag semantics enumerated with TLC; expectations replayed as multisets on the real query engine",
)

CHECKS["C03"] = dict(
    engine="IterSched",
    category="model_checking",
    text=("IterSched.tla: two evaluations over one variable's domain (replay cache + shared one-shot source), actions start / "
          "next / abandon / restart; layer R = every evaluation yields the domain in order whatever the other does; layer I = "
          "the intended private-cursor protocol (TLC: satisfies C03, 1.5 M states) and the as-implemented protocol (SharedDrain: "
          "dict-values replay + shared generator, refuted by TLC and used as the exact as-is predictor). All 8-step schedules "
          "(cold and warm) and simulated 14-step schedules are stepped with next() on real iterators in six query families plus "
          "three rule-query families on sequential schedules; every returned value is compared with the value the evaluation "
          "returns when run alone; a deviation counts as the recorded finding only if the whole observation equals the "
          "as-implemented prediction."),
    design_ref="DESIGN.md §4 C03",
    note=("Trusted: TLC, the projection of results to domain positions. Interleaved evaluations of rule queries are not "
          "generated (selector state is shared by design of the fix for C03-F07)."),
    technique="TLA+ iterator-schedule model checked with TLC; TLC-enumerated schedules replayed step by step on real iterators; as-implemented model used for finding attribution",
)

CHECKS["C08"] = dict(
    engine="RuleTree",
    category="model_checking",
    text=("RuleTree.tla: the lexical reading of nested with-blocks (Expected: refinement = exception, alternative = else-if "
          "sibling in written order, next_rule = additional) against the node graph that refinement() / alternative_or_next() "
          "build by re-parenting plus the selector evaluation of conclusion_selector.py (ImplFire), on the complete world of "
          "the branch conditions. TLC checks Agree on the 31 shapes the implementation handles and produces counter-examples "
          "on the full program space (the witnesses of the open finding). All 157 programs with <= 3 branches (thorough: 1 291 "
          "with <= 4) are built with real nested with-blocks and evaluated in two domain orders; per element the inferred "
          "conclusion types are compared with Expected; a deviation counts as the recorded finding only when it equals ImplFire "
          "for every element (plus one documented signature fallback)."),
    design_ref="DESIGN.md §4 C08",
    note=("Trusted: TLC, the transcription of rule.py / conclusion_selector.py into RuleTree.tla (validated element by element "
          "against the real output). Only single-variable rule trees have a reference; trees whose branches introduce further "
          "variables are not covered (their output is order dependent on the unchanged tree)."),
    technique="TLA+ lexical reference + as-implemented node-graph model enumerated with TLC; every program replayed on real with-block rule trees",
)

CHECKS["C10"] = dict(
    engine="Laziness",
    category="exploration",
    text=("Laziness.tla: the family of demand-driven nested-loop evaluators (loop order free); Need(order, k) = the domain prefixes "
          "such an evaluator has pulled after k results; an observation is justified iff some order bounds every pulled prefix "
          "by Need + 1; construction must log no user-data event. The harness records, for ~500 query shapes (fragment "
          "conditions of EQLCore.tla, quantified result constraints, predicate / symbolic-function / condition-free queries, "
          "rule trees) and k = 1..3, what logging one-shot generator domains and logging attribute properties saw; TLC "
          "validates every observation in batch against Laziness.tla (code -> spec). The first k results must be a prefix of "
          "the full sequence and re-evaluating the abandoned query must give the full sequence."),
    design_ref="DESIGN.md §4 C10",
    note=("Trusted: TLC, the harness instrumentation (user-side logging objects, no krrood hook), the satisfying pairs taken from an "
          "uninstrumented evaluation (C01 checks those). Any loop order and a look-ahead of one element per domain are accepted."),
    technique="harness-recorded pull logs validated in batch by TLC against a TLA+ demand-driven evaluator family (trace validation)",
)

CHECKS["C12"] = dict(
    engine="CallShape",
    category="exploration",
    text=("CallShape.tla: signatures (1..3 parameters, a suffix with defaults) x call shapes (positional prefix, keyword set, which "
          "arguments are query variables) with Python's binding rule, the mode, the expected body invocations (one per candidate "
          "binding with the values written in each position) and the expected solutions, all evaluated by TLC; the OffByOne "
          "switch (first parameter name skipped) is refuted. All 253 shapes are replayed on generated @symbolic_function "
          "functions (bool- and int-returning) and Predicate subclasses (plain and inheriting from an already used base "
          "predicate) with a call log; exhaustive over the shape space."),
    design_ref="DESIGN.md §4 C12",
    note="Trusted: TLC, the generated functions / predicate classes. Variables range over the truthy ints 1..3.",
    technique="TLA+ call-shape/binding model enumerated with TLC; every shape replayed on generated predicates and symbolic functions",
)

CHECKS["C18"] = dict(
    engine="JsonSer",
    category="exploration",
    text=("JsonSer.tla (part value): the value grammar (None, booleans, int, float, str, UUID, two registered third-party types one "
          "of which subclasses the other, objects of A, B<:A, C<:B and of a second class named A in another module, lists) with "
          "the type tag every object must carry; TLC enumerates all shapes of depth <= 1 and seeded random subsets of depth 2 "
          "and 3; the harness concretises each shape with adversarial / sampled leaf values and checks "
          "from_json(json.loads(json.dumps(to_json(v)))) against v with exact classes, and the tags in the serialised text."),
    design_ref="DESIGN.md §4 C18",
    note=("Trusted: TLC for the shapes, Python's json module. Leaf values are pooled/sampled by the harness, not model-enumerated "
          "(TLC has no floats, 32-bit ints, ASCII strings): exploration level only."),
    technique="TLA+ value-shape grammar enumerated/sampled with TLC; shapes concretised and round-tripped through real JSON text",
)
CHECKS["C19"] = dict(
    engine="JsonSer",
    category="exploration",
    text=("JsonSer.tla (part tag): type-tag resolution as a stage machine Get / TypeCheck / Split / Import / GetAttr / ClassCheck / "
          "Dispatch with one failure transition per stage; TLC checks that every one of the 24 tag classes ends in its documented "
          "JSONSerializationError subclass or an instance and refutes the three deviation switches (non-string tag reaches "
          "rsplit, only ModuleNotFoundError mapped, non-class reaches issubclass). Each class is replayed with 2-6 concrete tags "
          "sent through JSON text into from_json, after the process has already deserialised valid documents; exhaustive over "
          "the tag classes."),
    design_ref="DESIGN.md §4 C19",
    note="Trusted: TLC, the assignment of concrete tags to tag classes.",
    technique="TLA+ stage machine of tag resolution checked with TLC; every tag class replayed with concrete tags through from_json",
)

CHECKS["C11"] = dict(
    engine="Match",
    category="exploration",
    text=("Match.tla: MatchSem over a fixed world with value-equal twins, an empty collection and equal collections: literal = "
          "equality / membership, nested match = type + attributes of some element, match_any = common element, match_all = same "
          "elements; results are domain elements by identity; a second world for type-filtering nested matches on a base-typed "
          "collection; the expectation after an in-place edit of a collection. TLC evaluates the semantics for all 161 + 7 "
          "patterns (and checks monotonicity of the reference). Every pattern is evaluated through entity_matching / match / "
          "match_any / match_all / select in two domain orders and again after the edit on the same query object."),
    design_ref="DESIGN.md §4 C11",
    note=("Trusted: TLC, the concretisation of patterns into match(...) calls. Results compared as sets. Open finding C11-F02 "
          "(unconstrained select = cross product) attributed by signature."),
    technique="TLA+ pattern semantics enumerated with TLC; every pattern replayed through the match API",
)

CHECKS["C17"] = dict(
    engine="ClassModel",
    category="exploration",
    text=("ClassModel.tla: metamodel of three dataclasses (optional single / two-level inheritance, up to 2 fields each over 17 "
          "annotation kinds incl. Optional / List / Set / Sequence / Type wrappers, forward references, private fields, "
          "references to outside classes) with the expected diagram (nodes, direct-base inheritance edges, association edges "
          "incl. inherited fields) and the positive classification of each field, evaluated by TLC on seeded random samples. "
          "Each model is synthesised (one module, or one module per class with TYPE_CHECKING-only imports so that forward "
          "references resolve through the diagram), ClassDiagram is built in two class orders and over a re-executed K1 "
          "module, every field predicate is read and three read-only operations are applied with a snapshot before/after."),
    design_ref="DESIGN.md §4 C17",
    note=("Trusted: TLC, the synthesiser (model -> dataclass source). One wrapper level per annotation. The content of derived "
          "views is recorded as drift only (the property speaks about the source diagram)."),
    technique="TLA+ class-model metamodel sampled with TLC; synthesised dataclass modules passed through ClassDiagram and inspected",
)
CHECKS["C06"] = dict(
    engine="ClassModel",
    category="exploration",
    text=("ClassModel.tla Schema: DAO per class with the right base, a column per public scalar / enum / datetime / list-of-builtins "
          "field declared in that class (type, nullability), a nullable foreign key + scalar relationship per reference, an "
          "association table + list relationship per collection (also visible on subclasses), nothing for private fields; TLC "
          "evaluates it on seeded random models. Each model is synthesised (single module / one module per class), ORMatic "
          "generates the SQLAlchemy module from the working tree three times (bytes equal, also after calling make_all_tables "
          "twice), the module is imported, mappers configured, the schema created on SQLite, one instance per class stored, "
          "and every mapper inspected."),
    design_ref="DESIGN.md §4 C06",
    note=("Trusted: TLC, the synthesiser, SQLAlchemy's mapper inspection. Open finding C06-F10 (collection of the class's own type) "
          "attributed by signature + DuplicateColumnError."),
    technique="TLA+ expected-schema model sampled with TLC; synthesised models passed through ORMatic, imported and inspected",
)

CHECKS["C04"] = dict(
    engine="ObjGraph",
    category="model_checking",
    text=("ObjGraph.tla: all 48 825 (heap, root) pairs of three objects over the mapped model A, B<:A, C, alternatively mapped M "
          "with optional / list references; layer I models from_dao (allocate + memoise, depth-first parse in mapper order, "
          "initialise, circular fix-ups, mapping placeholder replaced at the very end); TLC checks RoundTripIso with the leak "
          "switch off and refutes PlaceholderLeak (the as-implemented behaviour), whose prediction `leaks` is exact. Quick: a "
          "seeded sample of ~4 900 heaps, thorough: all; each is instantiated on the ORM layer that ORMatic generates for "
          "harness/models/vmodel.py from the working tree, converted with to_dao / from_dao and compared by a lock-step "
          "isomorphism walk (classes, scalars incl. enum, datetime, list of builtins, custom typed value, JSON-serialisable "
          "objects; list order; sharing), also with one ToDAOState kept across thousands of conversions."),
    design_ref="DESIGN.md §4 C04",
    note=("Trusted: TLC, the isomorphism walk of the replayer. A deviation counts as the open finding C04-F08 only where the "
          "from_dao model predicts the placeholder leak."),
    technique="TLA+ heap enumeration + from_dao model checked with TLC; heaps replayed through to_dao/from_dao on a generated ORM layer",
)
CHECKS["C05"] = dict(
    engine="ObjGraph",
    category="model_checking",
    text=("ObjGraph.tla heaps with Rows (one row per distinct reachable object along the joined-table chain) and the from_dao "
          "model; each heap is committed to a fresh in-memory SQLite database, rows per table are counted with plain SQL, the "
          "root is loaded in a fresh session through its own DAO class and every DAO base class and compared by the "
          "isomorphism walk (relationship collections as identity sets); all rows are also loaded with one shared "
          "FromDAOState and what they have in common must be one object."),
    design_ref="DESIGN.md §4 C05",
    note=("Trusted: TLC, SQLite, the isomorphism walk. Open findings C05-F08 (as-is model) and C05-F09 (signature: two objects share "
          "the target of the self-referential single reference, and only `one` came back None)."),
    technique="TLA+ heap enumeration with expected rows; heaps persisted to SQLite and reloaded in fresh sessions through every DAO class of the chain",
)

CHECKS["C07"] = dict(
    engine="EQLCore",
    category="translation_validation",
    text=("Programs: the translatable vocabulary of EQLCore.tla (family sql: attribute vs literal incl. an Optional attribute "
          "holding None, relationship paths, membership in a literal collection, a two-variable attribute comparison; all trees "
          "of depth 1, seeded sample of depth 2) with the reference answer computed by TLC on the persisted world, plus 153 "
          "queries with three-segment relationship chains whose oracle is the in-memory evaluation. Each program is evaluated "
          "in memory and translated with eql_to_sql and executed on the SQLite database that holds the persisted objects "
          "(an(...) and the(...)); an accepted translation must select exactly the reference entities, anything the translator "
          "cannot express must be an EQLTranslationError."),
    design_ref="DESIGN.md §4 C07",
    note=("Trusted: TLC (reference answers), SQLite. Open findings C07-F12 / C07-F25 / C07-F09 attributed by input signature (and, "
          "for F25, 'only the row whose attribute is None is missing'). Joins between two variables of different classes are "
          "not generated."),
    technique="TLC-computed reference answers; each program evaluated in memory and as translated SQL on the persisted objects (three-way comparison)",
)

NOT_YET = "check not built yet in this build round (specified in DESIGN.md §4; will be claimed when its TLA+ module and binding exist)"
NOT_APPLICABLE = {}


# ---- coverage added in build round 2 (after the second set of seeded changes); appended to the texts above
ROUND2 = {
    "C01": "Round 2: a second world (the same query object re-evaluated after an in-place edit of the data), a selected attribute "
           "expression, a partially ordered family and quantifier conditions at depth 1 were added to EQLCore.tla.",
    "C02": "Round 2: the second world / re-evaluation and the poset family apply to the bags as well.",
    "C03": "Round 2: every family also returns the results of fresh identical queries evaluated alone (metamorphic alone-oracle), "
           "bare-variable queries and rule-query families.",
    "C04": "Round 2: ObjGraph.tla has a normally mapped subclass N of the alternatively mapped class M, function-valued fields, and a "
           "mapped subclass W of C whose direct base is an unmapped intermediate class.",
    "C05": "Round 2: as C04 (classes N and W, row counts of the tables VN and VW, loading through VWDAO and VCDAO).",
    "C06": "Round 2: the generated module must not import the synthesised modules of other models; ClassModel.tla models in which a "
           "class reaches its mapped base through an unmapped intermediate class that has a field of its own (u2 / u3).",
    "C07": "Round 2: string membership / prefix conditions (strings family) next to the sql and chains families; SqlJoin.tla - joins "
           "between two variables of different classes through relationship attributes (46 patterns; one row per binding, the() "
           "outcome; CollapsePartners refuted), three-way against TLC's bag, the in-memory evaluation and the translated SQL.",
    "C08": "Round 2: the base condition is a truth dimension of RuleTree.tla (one element per truth vector of the branch conditions "
           "AND the base condition, base-failing bindings enumerated before and after satisfying ones), and every program is also "
           "written in two steps (branches in a first `with query:` block, base conclusion in a second one).",
    "C09": "Round 2: NestedThe.tla - a the(...) nested in and correlated with an enclosing query: every sequence of per-binding "
           "solution counts 0..2 over up to 4 bindings, MemoFirst switch refuted, replayed in two element orders.",
    "C10": "Round 2: match patterns whose keyword value is a variable over a lazily produced domain (build phase must pull nothing), "
           "and for_all(y, c) over a lazily produced y: Laziness.tla NeedFA - the universal domain may be consumed only up to the "
           "first counter-example per tried binding (or, y outer, until no candidate is left).",
    "C11": "Round 2: select(Drawer)(...) directly on the collection attribute (SelDrawer) and the same world with falsy domain "
           "elements (objects whose __len__ is 0).",
    "C12": "Round 2: candidate values 0..2 (0 is falsy), the call as a later condition (every variable already bound), and concrete "
           "calls of positional-only and var-positional signatures (275 shapes).",
    "C13": "Round 2: CreateFrom action - instances that come into being by copy / deepcopy / dataclasses.replace / "
           "to_dao().from_dao() of a live instance (UnregisteredModes switch refuted) - and histories replayed with instances that "
           "are falsy objects while alive.",
    "C14": "Round 2: every fifth history is replayed again with falsy instances; the repository's own ontology / symbol-graph / "
           "rule tests are run with the H1 hooks on and their registry traces validated against SymbolGraph_Trace.tla.",
    "C15": "Round 2: third schema `geo` - a transitive property without inverse, a sub-property of it, instances of a subclass of the "
           "declaring class.",
    "C16": "Round 2: assignment of a lazy view of the field's own contents (reversed / generator / chain), dataclasses.replace of the "
           "owner as first assignment of another object's managed container (AliasedFirstAssignment refuted), and element churn "
           "(short-lived elements on a long-lived owner; StaleReportedCache refuted; address reuse counted in the evidence).",
    "C17": "Round 2: the per-class query API of a diagram and of the view derived from it, asked in either order, must agree with "
           "each diagram's own edge list; a third module style without the __future__ import (string forward references nested in "
           "wrappers).",
    "C18": "Round 2: a SubclassJSONSerializer subclass that is itself iterable is one of the object classes.",
    "C19": "Round 2: 25th tag class - a class that is not deserialisable but derives from a registered type (MroRegistryLookup "
           "switch refuted).",
    "C20": "Round 2: loop bodies from the query-free relate histories; the number of entries in the builtin containers reachable from "
           "the SymbolGraph singleton must not grow; the same create/assert/discard loop over Ontology.tla behaviours (roles, role "
           "takers, inverse / transitive / super-property inference) in three schemas.",
}
for _k, _v in ROUND2.items():
    if _k in CHECKS:
        CHECKS[_k]["text"] += " " + _v


# ---- coverage added in build round 3 (after the third set of seeded changes)
ROUND3 = {
    "C01": "Round 3: bare truth-valued attributes as conditions next to comparisons over the same attribute (EQLTerms, 608 conditions).",
    "C02": "Round 3: EQLScalar.tla - domains of values (integers with colliding hashes and the falsy 0, value objects with equal twins), "
           "every query object evaluated three times.",
    "C03": "Round 3: one attribute node used for its value in one query and as a condition in another (shared_mapping families; open "
           "finding C03-F34 attributed by signature).",
    "C04": "Round 3: every fifth heap consists of falsy objects; classes X (alternatively mapped, its mapping renames the collection) and Y "
           "(normally mapped subclass of X), reached through C.x before C.back.",
    "C05": "Round 3: every fifth heap consists of falsy objects; classes X / Y with the tables VXMappingDAO / VYDAO.",
    "C07": "Round 3: text containers over a second database whose labels contain LIKE wildcards and case variants; a variable over an "
           "unmapped class must be rejected.",
    "C08": "Round 3: RuleNewVar.tla (a refinement whose condition introduces a variable of its own, 108 worlds), the rule evaluated before "
           "it is extended (open finding C08-F35 attributed by signature), SeenSet.tla (the selectors' coverage index).",
    "C09": "Round 3: every quantified query object is evaluated three times; a form whose domain holds values of other types.",
    "C10": "Round 3: a method-call operand on an unbound variable; a rule whose refinement introduces a lazily produced variable.",
    "C11": "Round 3: equal twins that differ in a field the value equality ignores (match(Drawer)(correct=True)); every pattern over an "
           "explicitly empty domain.",
    "C12": "Round 3: style varkw (def f(p1, **options)), arguments that are items of ONE object (r.cells[i]), the number-valued function "
           "compared with 0, an is_expensive predicate on two items of one object (315 shapes).",
    "C13": "Round 3: Declare / EvalDeclared - the query object is built by one step and evaluated by a later one.",
    "C14": "Round 3: Ontology.tla Die(D) - part of the population dies between assertions (three schemas; CanDie), the survivors' later "
           "assertions must produce exactly their closure; a dense dead population (collected, not swept) whose addresses the suffix's "
           "instances are made to reuse in the same role.",
    "C15": "Round 3: teaches [= knows with its own inverse taught_by [= known_by; every fifth sequence on falsy instances.",
    "C16": "Round 3: every fifth two-write sequence on falsy instances.",
    "C17": "Round 3: K3 as a Role[K1] with two mandatory one-to-one fields.",
    "C18": "Round 3: strings that spell non-finite floats / JSON literals; a list holding the same sub-value object twice.",
    "C19": "Round 3: tag classes attr_constant and attr_abstract_base (27 classes); every tag in three calling contexts.",
    "C20": "Round 3: an exception escaping a partially consumed evaluation is an observation and a violation; Infer - histories in which "
           "a rule infers an instance from a live one (the inferred instance lives exactly as long as its holder).",
}
for _k, _v in ROUND3.items():
    if _k in CHECKS:
        CHECKS[_k]["text"] += " " + _v


# ---- coverage added in build round 4 (after the fourth set of seeded changes)
ROUND4 = {
    "C01": "Round 4: two components of ONE stored container / two method results of one object compared with each other (EQLTerms, 1388 "
           "conditions); for_all whose body is a union-form or_ (open finding C01-F38 attributed by signature).",
    "C03": "Round 4: IterSched with N = 0 (a variable whose domain is empty after the type filter, shared by two queries); a rule extended "
           "by a refinement after a first evaluation (rule_grow).",
    "C05": "Round 4: in every third heap distinct non-root objects of one class carry equal scalar values; a loaded copy's JSON columns "
           "are modified in memory and the row is loaded again.",
    "C06": "Round 4: a second generator over one diagram object and a generation after the model's modules were executed again must "
           "produce the same text.",
    "C07": "Round 4: a bare non-boolean attribute as a condition (values other than 0 / 1), `!= None` and `== None` on an Optional integer.",
    "C08": "Round 4: the second of two iterables obtained back to back; RuleNewVar's third template (two base bindings share the values "
           "of every conclusion variable).",
    "C15": "Round 4: the sub-property descriptor is declared on a base class whose super-property field exists on a subclass only (geo "
           "model); augmented assignment as a fifth write form.",
    "C17": "Round 4: after a view was derived the original's class lookup must still hand out its own nodes.",
    "C18": "Round 4: classes whose __init_subclass__ chain is broken and a make_dataclass class; every value also through the JSON "
           "(de)serialiser that create_engine installs (stored, loaded, loaded copy modified, loaded again).",
    "C20": "Round 4: CreateRef / Detach - an instance refers to another through a plain attribute that is later reset, around a partially "
           "consumed evaluation that reaches the referred instance through that attribute.",
}
for _k, _v in ROUND4.items():
    if _k in CHECKS:
        CHECKS[_k]["text"] += " " + _v


# further TLA+ modules a check runs besides its main engine (listed under MANIFEST.engines)
EXTRA_ENGINES = {
    "C01": ["EQLFlat", "EQLTerms"],
    "C02": ["EQLScalar"],
    "C07": ["SqlJoin"],
    "C08": ["RuleNewVar", "SeenSet"],
    "C09": ["QuantifierPair", "NestedThe", "QuantInd"],
    "C10": ["EQLCore"],
    "C13": ["SymbolGraph_Trace"],
    "C14": ["Ontology", "SymbolGraph_Trace"],
    "C15": ["Ontology_Trace"],
    "C20": ["Ontology"],
}
