"""Replay of ObjGraph.tla heaps: object -> DAO -> object (C04) and object -> SQL -> object in a fresh session (C05)."""
from datetime import datetime

from harness.core import worker_main
from harness.models import vorm
from harness.models.vmodel import VA, VB, VC, VW, VM, VN, VX, VY, VK, Kind, VMMapping, VXMapping, Fa, Fb, plain_function

from krrood.ormatic.dao import to_dao, ToDAOState, FromDAOState
from harness.models import jsonmodel, jsonmodel2

SHARED_TO_DAO_STATE = ToDAOState()      # one conversion state for every heap this process converts (objects die in between)

# truth value of every model instance, switchable per case (a mapped object may be a falsy Python object, e.g. an empty
# container-like dataclass); conversions must not depend on it
FALSY = [False]
for _k in (VA, VC, VM, VX):
    _k.__bool__ = lambda self: not FALSY[0]

GEN = None
SCALARS = {"VA": ["name", "kind", "when", "nums", "weight", "k", "a", "b", "w", "label"], "VB": ["name", "kind", "when", "nums", "weight", "k", "a", "b", "w", "label", "extra"],
           "VC": ["tag", "tag2", "j1", "j2", "cb"], "VW": ["tag", "tag2", "j1", "j2", "cb", "hidden", "extra_w"], "VM": ["label"], "VN": ["label", "extra"], "VX": ["label"], "VY": ["label", "extra"]}
SINGLE = {"VA": ["one", "other"], "VB": ["one", "other"], "VC": ["x", "back", "m"], "VW": ["x", "back", "m"], "VM": ["ref"], "VN": ["ref"],
          "VX": [], "VY": []}
MANY = {"VA": ["many"], "VB": ["many"], "VC": ["peers"], "VW": ["peers"], "VM": [], "VN": [], "VX": ["pets"], "VY": ["pets"]}


def build(case):
    cls, rec = case["cls"], case["rec"]
    objs = {}
    root = case.get("root")
    for n, c in enumerate(cls, 1):
        # twins: two distinct objects of one class (none of them the root) carry the same scalar values - they stay two objects
        i = n
        if case.get("twins") and n != root:
            i = min(j for j in range(1, n + 1) if j != root and cls[j - 1] == c)
        objs[n] = build_one(c, i)
    link(cls, rec, objs)
    return objs


def build_one(c, i):
    objs = {}
    if True:
        if c in ("A", "B"):
            kw = dict(name=f"o{i}", kind=Kind.Y if i % 2 else Kind.X, when=datetime(2020, 1, i, 12, 30) if i != 2 else None,
                      nums=[i, i + 1] if i != 3 else [], weight=i * 0.5 if i != 1 else None, k=VK(i) if i != 2 else None,
                      a=i, b=-i, w=i if i != 3 else None, label=('C1', 'C', '')[i % 3])
            objs[i] = VB(extra=i * 10, **kw) if c == "B" else VA(**kw)
        elif c in ("C", "W"):
            objs[i] = (VC if c == "C" else VW)(**({} if c == "C" else {"hidden": 40 + i, "extra_w": 50 + i}), tag=i, tag2=7 * i, cb=(Fa.act, Fb.act, plain_function)[i % 3], j1=(jsonmodel.A(i, [i, "x"]) if i == 2 else jsonmodel.B(i, [i, "x"])) if i != 1 else None, j2=jsonmodel2.A(i, None))
        elif c == "N":
            objs[i] = VN(label=f"n{i}", extra=100 + i)
        elif c == "X":
            objs[i] = VX(label=f"x{i}")
        elif c == "Y":
            objs[i] = VY(label=f"y{i}", extra=200 + i)
        else:
            objs[i] = VM(label=f"m{i}")
    return objs[i]


def link(cls, rec, objs):
    for i, r in enumerate(rec, 1):
        o = objs[i]
        if cls[i - 1] in ("A", "B"):
            o.one = objs.get(r["one"]); o.other = objs.get(r["other"]); o.many = [objs[x] for x in r["many"]]
        elif cls[i - 1] in ("C", "W"):
            o.x = objs.get(r["x"]); o.back = objs.get(r["back"]); o.m = objs.get(r["m"]); o.peers = [objs[x] for x in r["peers"]]
        elif cls[i - 1] in ("X", "Y"):
            o.pets = [objs[x] for x in r["pets"]]
        else:
            o.ref = objs.get(r["ref"])


def iso(a, b, as_sets=False):
    """Lock-step walk of two rooted graphs with labelled, ordered edges; returns the first difference or None."""
    fwd, bwd = {}, {}
    stack = [(a, b, "$")]
    while stack:
        x, y, path = stack.pop()
        if x is None or y is None:
            if x is not y:
                return f"{path}: {type(y).__name__ if y is not None else None} instead of {type(x).__name__ if x is not None else None}"
            continue
        if id(x) in fwd:
            if fwd[id(x)] is not y:
                return f"{path}: one source object became two objects (sharing lost)"
            continue
        if id(y) in bwd:
            return f"{path}: two distinct source objects became one object"
        if type(x) is not type(y):
            return f"{path}: class {type(y).__name__} instead of {type(x).__name__}"
        fwd[id(x)] = y
        bwd[id(y)] = x
        t = type(x).__name__
        for f in SCALARS[t]:
            u, v = getattr(x, f), getattr(y, f, "<missing>")
            if type(u) is not type(v) or u != v:
                return f"{path}.{f}: {v!r} instead of {u!r}"
        for f in SINGLE[t]:
            stack.append((getattr(x, f), getattr(y, f, None), f"{path}.{f}"))
        for f in MANY[t]:
            lx, ly = getattr(x, f), getattr(y, f, None)
            if not isinstance(ly, list):
                return f"{path}.{f}: {type(ly).__name__} instead of a list"
            if as_sets:
                # relationship collections of the database carry neither order nor repetition: compare as identity sets
                ux = list({id(e): e for e in lx}.values())
                uy = list({id(e): e for e in ly}.values())
                if len(ux) != len(uy):
                    return f"{path}.{f}: {len(uy)} distinct elements instead of {len(ux)}"
                key = lambda e: (type(e).__name__, getattr(e, "name", None), getattr(e, "tag", None))
                for k, (ex, ey) in enumerate(zip(sorted(ux, key=key), sorted(uy, key=key))):
                    stack.append((ex, ey, f"{path}.{f}{{{k}}}"))
            else:
                if len(lx) != len(ly):
                    return f"{path}.{f}: length {len(ly)} instead of {len(lx)}"
                for k, (ex, ey) in enumerate(zip(lx, ly)):
                    stack.append((ex, ey, f"{path}.{f}[{k}]"))
    return None


def c04(case):
    FALSY[0] = bool(case.get("falsy"))
    try:
        return _c04(case)
    finally:
        FALSY[0] = False


def _c04(case):
    objs = build(case)
    root = objs[case["root"]]
    out = {}
    try:
        dao = to_dao(root)
        back = dao.from_dao()
        out["diff"] = iso(root, back)
        # a second conversion with a shared state must give the same DAO (memoisation by object)
        st = ToDAOState()
        d1 = to_dao(root, state=st)
        d2 = to_dao(root, state=st)
        out["same_dao_with_shared_state"] = d1 is d2
        # one conversion state used for many conversions whose source objects die in between
        out["diff_long_lived_state"] = iso(root, to_dao(root, state=SHARED_TO_DAO_STATE).from_dao())
    except Exception as ex:
        out["error"] = f"{type(ex).__name__}: {str(ex)[:300]}"
    return out


def c05(case):
    FALSY[0] = bool(case.get("falsy"))
    try:
        return _c05(case)
    finally:
        FALSY[0] = False


def _c05(case):
    from sqlalchemy import select, text
    from sqlalchemy.orm import Session
    from krrood.ormatic.utils import create_engine
    gen = vorm.interface()
    objs = build(case)
    root = objs[case["root"]]
    out = {}
    engine = create_engine("sqlite:///:memory:")
    try:
        gen.Base.metadata.create_all(engine)
        with Session(engine) as s1:
            s1.add(to_dao(root))
            s1.commit()
        with engine.connect() as con:
            out["rows"] = {t: con.execute(text(f'select count(*) from "{n}"')).scalar()
                           for t, n in (("VA", "VADAO"), ("VB", "VBDAO"), ("VC", "VCDAO"), ("VM", "VMMappingDAO"), ("VN", "VNDAO"), ("VW", "VWDAO"), ("VX", "VXMappingDAO"), ("VY", "VYDAO"))}
        chain = {"VA": ["VADAO"], "VB": ["VBDAO", "VADAO"], "VC": ["VCDAO"], "VW": ["VWDAO", "VCDAO"], "VM": ["VMMappingDAO"],
                 "VN": ["VNDAO", "VMMappingDAO"], "VX": ["VXMappingDAO"], "VY": ["VYDAO", "VXMappingDAO"]}[type(root).__name__]
        diffs = {}
        for dn in chain:
            with Session(engine) as s2:       # a fresh session per load
                daos = list(s2.scalars(select(getattr(gen, dn))).all())
                ident = ("name", root.name) if isinstance(root, VA) else (("tag", root.tag) if isinstance(root, VC) else ("label", root.label))
                mine = [d for d in daos if getattr(d, ident[0]) == ident[1]]
                if len(mine) != 1:
                    diffs[dn] = f"{len(mine)} rows for the root object"
                    continue
                loaded = mine[0].from_dao()
                diffs[dn] = iso(root, loaded, as_sets=True)
        out["diffs"] = diffs
        # a loaded copy is modified in memory (never written back); loading the rows again in a fresh session must still
        # give the stored values
        if isinstance(root, VC) and (root.j1 is not None or root.j2 is not None):
            dn = chain[0]
            with Session(engine) as s4:
                mine = [d for d in s4.scalars(select(getattr(gen, dn))).all() if d.tag == root.tag]
                if len(mine) == 1:
                    first = mine[0].from_dao()
                    for j in (first.j1, first.j2):
                        if j is not None:
                            j.x = "modified in memory"
                            if isinstance(j.y, list):
                                j.y.append("modified in memory")
            with Session(engine) as s5:
                mine = [d for d in s5.scalars(select(getattr(gen, dn))).all() if d.tag == root.tag]
                if len(mine) == 1:
                    out["diff_after_modifying_a_loaded_copy"] = iso(root, mine[0].from_dao(), as_sets=True)
        # several top-level from_dao calls that share one (initially empty) conversion state: what they have in common
        # must be one object
        with Session(engine) as s3:
            st = FromDAOState()
            loaded = {}
            for dn in ("VADAO", "VCDAO", "VMMappingDAO", "VXMappingDAO"):     # (VBDAO / VNDAO rows are loaded polymorphically through their base)
                for d in s3.scalars(select(getattr(gen, dn))).all():
                    loaded[(dn, d.database_id)] = (d, d.from_dao(state=st))
            shared_problem = None
            for (dn, pk), (d, o) in loaded.items():
                if d.from_dao(state=st) is not o:
                    shared_problem = f"{dn} row {pk}: a second from_dao with the same state gave another object"
                    break
                for f in ("one", "other", "x", "back", "m", "ref"):
                    t = getattr(d, f, None)
                    if t is not None and hasattr(t, "database_id"):
                        tn = {"VBDAO": "VADAO", "VNDAO": "VMMappingDAO", "VWDAO": "VCDAO", "VYDAO": "VXMappingDAO"}.get(type(t).__name__, type(t).__name__)
                        want = loaded.get((tn, t.database_id))
                        if want is not None and getattr(o, f, None) is not want[1] and not isinstance(getattr(o, f, None), (VMMapping, VXMapping)):
                            shared_problem = f"{dn} row {pk}.{f}: not the object that loading the target row gave"
                            break
                if shared_problem:
                    break
            out["shared_state_problem"] = shared_problem
    except Exception as ex:
        out["error"] = f"{type(ex).__name__}: {str(ex)[:300]}"
    finally:
        engine.dispose()
    return out


def handle(case):
    return c04(case) if case["mode"] == "c04" else c05(case)


def setup(args):
    vorm.interface()
    return None


if __name__ == "__main__":
    worker_main(lambda c, s: handle(c), setup)
