"""Replay of EQLScalar.tla: domains of plain integers and of value objects (value equality, value hash) - C02 / C01."""
from dataclasses import dataclass

from harness.core import worker_main

from krrood.entity_query_language.entity import entity, set_of, let, and_, or_, not_
from krrood.entity_query_language.quantify_entity import an

VAL = {"e1": -1, "e2": -2, "e3": 0, "e4": 0, "e5": 1}


@dataclass(unsafe_hash=True)
class ValObj:
    """Compares and hashes by value: two equal instances are still two elements of a domain."""
    v: int


def build(e, V, mode):
    k = e[0]

    def term(t):
        if t[0] == "lit":
            return t[1]
        return V[t[1]] if mode == "int" else V[t[1]].v
    if k == "cmp":
        l, r = term(e[2]), term(e[3])
        return {"eq": lambda: l == r, "ne": lambda: l != r, "lt": lambda: l < r, "ge": lambda: l >= r}[e[1]]()
    if k == "same":
        return V[e[1]] == V[e[2]]
    if k == "and":
        return and_(build(e[1], V, mode), build(e[2], V, mode))
    if k == "or":
        return or_(build(e[1], V, mode), build(e[2], V, mode))
    if k == "not":
        return not_(build(e[1], V, mode))
    raise ValueError(e)


def handle(case):
    mode, cond, two = case["mode"], case["cond"], case["two"]
    out = []
    for c in case["cases"]:
        if mode == "int":
            mk = lambda names: [VAL[n] for n in names]
            name_of = lambda v, pool: {VAL[n]: n for n in pool}[v]
            T = int
        else:
            objs = {n: ValObj(VAL[n]) for n in VAL}
            mk = lambda names: [objs[n] for n in names]
            name_of = lambda v, pool: next(n for n in pool if objs[n] is v)
            T = ValObj
        V = {"x": let(T, mk(c["dx"]), name="x"), "y": let(T, mk(c["dy"]), name="y")}
        res = {"evals": []}
        try:
            cnd = build(cond, V, mode)
            q = an(set_of([V["x"], V["y"]], cnd)) if two else an(entity(V["x"], cnd))
            for _ in range(3):          # the same query object, evaluated three times
                rows = []
                for r in q.evaluate():
                    rows.append([name_of(r[V["x"]], c["dx"]), name_of(r[V["y"]], c["dy"])] if two else [name_of(r, c["dx"])])
                res["evals"].append(sorted(rows))
        except Exception as ex:
            res["error"] = f"{type(ex).__name__}: {ex}"
        out.append(res)
    return {"cases": out}


if __name__ == "__main__":
    worker_main(handle)
