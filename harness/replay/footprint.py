"""Measurements of what krrood holds (C20): no private attribute is named."""
import gc
from collections import Counter

from krrood.entity_query_language.symbol_graph import SymbolGraph


def krrood_census():
    c = Counter()
    for o in gc.get_objects():
        m = getattr(type(o), "__module__", "") or ""
        if m.startswith("krrood."):
            c[type(o).__name__] += 1
    return c


def registry_footprint():
    """Total number of entries in the builtin containers reachable from the SymbolGraph singleton through its own
    attributes (no attribute is named): bookkeeping left behind for discarded instances shows up as growth."""
    root = SymbolGraph()
    seen, todo, total = {id(root)}, [root], 0
    while todo:
        o = todo.pop()
        if isinstance(o, (dict, set, frozenset, list, tuple)):
            total += len(o)
        if isinstance(o, (dict, set, frozenset, list, tuple)) or o is root:
            for r in gc.get_referents(o):
                if id(r) in seen or isinstance(r, (type, str, int, float, bytes)) or r is None:
                    continue
                if isinstance(r, (dict, set, frozenset, list, tuple)):
                    seen.add(id(r))
                    todo.append(r)
    return total
