"""C10: record what building and partially consuming a query touches (pull logs for Laziness.tla)."""
from dataclasses import dataclass, field
from typing import List, Optional

from harness.core import worker_main

from krrood.entity_query_language.entity import entity, set_of, let, and_, or_, not_, in_, contains, inference, for_all
from krrood.entity_query_language.quantify_entity import an
from krrood.entity_query_language.result_quantification_constraint import AtMost, AtLeast, Range
from krrood.entity_query_language.predicate import Predicate, symbolic_function, Symbol
from krrood.entity_query_language.conclusion import Add
from krrood.entity_query_language.rule import refinement, alternative
from krrood.entity_query_language.match import entity_matching, match

LOG = []


class L:
    """An element whose attributes are logging properties."""

    def __init__(self, name, a, b):
        self.name, self._a, self._b = name, a, b
        self._items, self._ref = [], None

    a = property(lambda s: (LOG.append(("attr", s.name, "a")), s._a)[1])
    b = property(lambda s: (LOG.append(("attr", s.name, "b")), s._b)[1])
    items = property(lambda s: (LOG.append(("attr", s.name, "items")), s._items)[1])
    ref = property(lambda s: (LOG.append(("attr", s.name, "ref")), s._ref)[1])

    def __repr__(self):
        return self.name

    def get_b(self):
        LOG.append(("call", "get_b", self.name))
        return self._b


@dataclass(eq=False)
class Small(Predicate):
    o: L

    def __call__(self):
        LOG.append(("call", "Small", self.o.name))
        return self.o._a == 0


@symbolic_function
def is_small(o):
    LOG.append(("call", "is_small", o.name))
    return o._a == 0


@dataclass(eq=False)
class Conc(Symbol):
    p: L


VEC = [(0, 0), (0, 1), (1, 0), (1, 1), (0, 0), (1, 0), (0, 1)]


def world(tag):
    objs = [L(f"{tag}{i + 1}", a, b) for i, (a, b) in enumerate(VEC)]
    for i, o in enumerate(objs):
        o._items = [objs[(i + 1) % 7], objs[(i + 3) % 7]] if i % 2 else []
        o._ref = objs[(i * 3 + 1) % 7]
    return objs


def gen(objs, var):
    for i, o in enumerate(objs):
        LOG.append(("pull", var, i + 1))
        yield o


def term(t, V):
    k = t[0]
    if k == "lit":
        return t[1]
    if k == "var":
        return V[t[1]]
    if k == "attr":
        return getattr(V[t[1]], t[2])
    if k == "attr2":
        return getattr(getattr(V[t[1]], t[2]), t[3])
    if k == "call":
        return getattr(V[t[1]], t[2])()


def build(e, V):
    k = e[0]
    if k == "cmp":
        l, r = term(e[2], V), term(e[3], V)
        return {"eq": lambda: l == r, "ne": lambda: l != r, "lt": lambda: l < r, "ge": lambda: l >= r}[e[1]]()
    if k == "in":
        return in_(term(e[1], V), term(e[2], V))
    if k == "and":
        return and_(build(e[1], V), build(e[2], V))
    if k == "or":
        return or_(build(e[1], V), build(e[2], V))
    if k == "not":
        return not_(build(e[1], V))
    if k == "forall":
        return for_all(V[e[1]], build(e[2], V))
    if k == "pred":
        return Small(o=V[e[1]])
    if k == "fun":
        return is_small(o=V[e[1]])
    if k == "true":
        return None
    raise ValueError(e)


def vars_of(e):
    if not isinstance(e, list):
        return set()
    if e and e[0] in ("var", "attr", "attr2", "pred", "fun", "call"):
        return {e[1]}
    if e and e[0] == "true":
        return {"x"}
    return set().union(*[vars_of(x) for x in e[1:]]) if len(e) > 1 else set()


def make(cond, lazy, form="query"):
    X, Y = world("x"), world("y")
    two = "y" in vars_of(cond)
    V = {"x": let(L, gen(X, "x") if lazy else list(X), name="x")}
    if two:
        V["y"] = let(L, gen(Y, "y") if lazy else list(Y), name="y")
    c = build(cond, V)
    if form.startswith("rule"):
        from krrood.entity_query_language.symbol_graph import SymbolGraph
        SymbolGraph().clear()        # inferred instances of earlier evaluations must not be candidates for let(Conc, None)
    if form == "rule_newvar":
        # a rule whose refinement condition introduces a variable of its own (y) over a lazily produced domain
        if "y" not in V:
            V["y"] = let(L, gen(Y, "y") if lazy else list(Y), name="y")
        q = an(entity(v := let(Conc, None), c))
        with q:
            Add(v, inference(Conc)(p=V["x"]))
            with refinement(V["y"].a == V["x"].a):
                Add(v, inference(Conc)(p=V["x"]))
        return q, V, X, Y, False
    if form == "rule":
        d = entity(v := let(Conc, None), c) if c is not None else entity(let(Conc, None))
        q = an(d)
        with q:
            Add(v, inference(Conc)(p=V["x"]))
            with refinement(V["x"].b == 1):
                Add(v, inference(Conc)(p=V["x"]))
        return q, V, X, Y, two
    if two:
        d = set_of([V["x"], V["y"]], c)
    else:
        d = entity(V["x"], c) if c is not None else entity(V["x"])
    constraint = {"atmost": AtMost(1000), "atleast": AtLeast(0), "range": Range(AtLeast(0), AtMost(1000))}.get(form)
    return an(d, quantification=constraint), V, X, Y, two


def rows(results, V, two, X, Y):
    out = []
    for r in results:
        if two:
            out.append([X.index(r[V["x"]]) + 1, Y.index(r[V["y"]]) + 1])
        elif isinstance(r, L):
            out.append([X.index(r) + 1, 0])
        else:
            out.append([X.index(r.p) + 1, 0])
    return out


@dataclass(eq=False, repr=False)
class MD(Symbol):
    """A dataclass element (match patterns need declared fields) whose field reads are logged."""
    name: str
    a: int = 0
    ref: Optional["MD"] = None
    items: List["MD"] = field(default_factory=list)

    def __getattribute__(self, n):
        if n in ("a", "ref", "items"):
            LOG.append(("attr", object.__getattribute__(self, "name"), n))
        return object.__getattribute__(self, n)

    def __repr__(self):
        return object.__getattribute__(self, "name")


def raw(o, n):
    return object.__getattribute__(o, n)


def md_world():
    objs = [MD(f"x{i + 1}", a) for i, (a, b) in enumerate(VEC)]
    for i, o in enumerate(objs):
        o.items = [objs[(i + 1) % 7], objs[(i + 3) % 7]] if i % 2 else []
        o.ref = objs[(i * 3 + 1) % 7]
    return objs


def make_match(cond, lazy, form):
    """Match patterns whose keyword value is itself a variable over a (lazily produced) domain: x.ref == y,
    x.a == n, y in x.items.  Only x is selected; the y index of a row is recovered from the data."""
    X = md_world()
    kind = cond[1]
    # a variable assigned to a keyword means "the attribute is a member of the variable's value": y ranges over disjoint groups
    if kind == "scalar":
        Y = [(1,), (5, 7), (0,)]
        kw = "a"
    else:
        Y = [(X[2], X[0]), (X[4],), (X[1], X[6], X[3]), (X[5],)]
        kw = "ref"
    yv = let(tuple, gen(Y, "y") if lazy else list(Y), name="y")
    q = an(entity_matching(MD, gen(X, "x") if lazy else list(X))(**{kw: yv}))
    return q, {"kind": kind}, X, Y, True


def match_rows(results, kind, X, Y):
    out = []
    for r in results:
        v = raw(r, "a" if kind == "scalar" else "ref")
        out.append([X.index(r) + 1, [j for j, g in enumerate(Y) if any(v is m or (kind == "scalar" and v == m) for m in g)][0] + 1])
    return out


def make_forall(cond, lazy, form="query"):
    """x is selected, y is the universally quantified variable of the for_all inside cond."""
    X, Y = world("x"), world("y")
    V = {"x": let(L, gen(X, "x") if lazy else list(X), name="x"), "y": let(L, gen(Y, "y") if lazy else list(Y), name="y")}
    return an(entity(V["x"], build(cond, V))), V, X, Y, False


def pyterm(t, env):
    return t[1] if t[0] == "lit" else getattr(env[t[1]], "_" + t[2])


def pyeval(e, env, Y, note):
    """Short-circuit evaluation on the raw data; note["cex"] = what the for_all needs of y for this x:
    0 = not evaluated, j = first refuting y, len(Y) = holds for all."""
    k = e[0]
    if k == "cmp":
        l, r = pyterm(e[2], env), pyterm(e[3], env)
        return {"eq": l == r, "ne": l != r, "lt": l < r, "ge": l >= r}[e[1]]
    if k == "and":
        return pyeval(e[1], env, Y, note) and pyeval(e[2], env, Y, note)
    if k == "or":
        return pyeval(e[1], env, Y, note) or pyeval(e[2], env, Y, note)
    if k == "forall":
        for j, y in enumerate(Y):
            if not pyeval(e[2], {**env, e[1]: y}, Y, note):
                note["need"] = j + 1
                return False
        note["need"] = len(Y)
        return True
    raise ValueError(e)


def forall_needs(cond):
    X, Y = world("x"), world("y")
    out = []
    for x in X:
        note = {"need": 0}
        pyeval(cond, {"x": x}, Y, note)
        out.append(note["need"])
    return out


def build_only(case):
    """Construct one expression of every kind of the public vocabulary over logging objects / one-shot generators and report
    what construction touched (it must touch nothing)."""
    from krrood.entity_query_language.entity import flatten, exists
    from krrood.entity_query_language.quantify_entity import the
    touched = {}

    def probe(name, fn):
        X, Y = world("x"), world("y")
        x = let(L, gen(X, "x"), name="x")
        y = let(L, gen(Y, "y"), name="y")
        del LOG[:]
        try:
            fn(x, y)
        except Exception as ex:
            touched[name] = [f"{type(ex).__name__}: {ex}"]
            return
        if LOG:
            touched[name] = [list(e) for e in LOG[:4]]
    probe("attribute chain", lambda x, y: x.ref.ref.a == y.b)
    probe("indexing", lambda x, y: x.items[0].a == 1)
    probe("method call", lambda x, y: x.get_b() == y.get_b())
    probe("flatten", lambda x, y: an(entity(flatten(x.items))))
    probe("membership", lambda x, y: and_(in_(x, y.items), contains(y.items, x)))
    probe("negation and connectives", lambda x, y: not_(or_(x.a == 1, and_(y.b == 0, x.b != y.a))))
    probe("quantifiers", lambda x, y: and_(for_all(y, x.a >= y.a), exists(y, x.b == y.b)))
    probe("predicate and function", lambda x, y: and_(Small(o=x), is_small(o=y)))
    probe("set_of / an / the", lambda x, y: (an(set_of([x, y, x.a], x.a == y.a)), the(entity(x, x.b == 0)),
                                             an(entity(x), quantification=AtMost(3))))
    probe("nested query as a variable", lambda x, y: an(entity(x, x.ref == an(entity(y, y.a == 0)))))

    def rule(x, y):
        q = an(entity(v := let(Conc, None), x.a == 0))
        with q:
            Add(v, inference(Conc)(p=x))
            with refinement(x.b == 1, y.a == x.a):
                Add(v, inference(Conc)(p=y))
            with alternative(x.b == 0):
                Add(v, inference(Conc)(p=x))
    probe("rule tree", rule)
    return {"build_only": touched}


def handle(case):
    if case.get("build_only"):
        return build_only(case)
    cond = case["cond"]
    form = case.get("form", "query")
    res = {"obs": []}
    if case.get("family") == "forall":
        r = handle_with(case, make_forall, rows)
        if "obs" in r:
            r["fa"] = forall_needs(cond)
            for o in r["obs"]:
                o["n"] = [7, 7]
        return r
    if cond[0] == "match":
        return handle_with(case, lambda c, lazy, form="query": make_match(c, lazy, form),
                           lambda results, V, two, X, Y: match_rows(results, V["kind"], X, Y))
    return handle_with(case, make, rows)


def pyeval_simple(e, x):
    """The base condition of the rule_newvar form on the raw data (conditions over x only)."""
    k = e[0]
    if k == "cmp":
        val = lambda t: t[1] if t[0] == "lit" else getattr(x, "_" + t[2])
        l, r = val(e[2]), val(e[3])
        return {"eq": l == r, "ne": l != r, "lt": l < r, "ge": l >= r}[e[1]]
    if k == "and":
        return pyeval_simple(e[1], x) and pyeval_simple(e[2], x)
    if k == "or":
        return pyeval_simple(e[1], x) or pyeval_simple(e[2], x)
    if k == "not":
        return not pyeval_simple(e[1], x)
    raise ValueError(e)


def handle_with(case, make, rows):
    cond = case["cond"]
    form = case.get("form", "query")
    res = {"obs": []}
    # the satisfying index pairs and the full result sequence, from an uninstrumented evaluation over list domains
    q, V, X, Y, two = make(cond, lazy=False, form=form)
    try:
        full = rows(list(q.evaluate()), V, two, X, Y)
    except Exception as ex:
        return {"error": f"{type(ex).__name__}: {ex}"}
    sat = sorted({tuple(r) for r in full})
    if form == "rule_newvar":
        # one inferred instance per (x, y) for which the refinement holds; every x has such a y in this world
        sat = sorted((i + 1, j + 1) for i, xo in enumerate(X) for j, yo in enumerate(Y)
                     if xo._a == yo._a and pyeval_simple(cond, xo))
    res["sat"] = [list(s) for s in sat]
    res["full"] = full
    for k in case["ks"]:
        del LOG[:]
        q, V, X, Y, two = make(cond, lazy=True, form=form)
        build_events = len(LOG)
        del LOG[:]
        it = iter(q.evaluate())
        after_evaluate_call = len(LOG)
        got = []
        err = None
        try:
            for _ in range(k):
                got.append(next(it))
        except StopIteration:
            pass
        except Exception as ex:
            err = f"{type(ex).__name__}: {ex}"
        pulls = {"x": 0, "y": 0}
        for ev in LOG:
            if ev[0] == "pull":
                pulls[ev[1]] = max(pulls[ev[1]], ev[2])
        it.close()
        # the abandoned evaluation must not have lost anything: evaluating the same query object again gives the full sequence
        try:
            again = rows(list(q.evaluate()), V, two, X, Y)
        except Exception as ex:
            again = f"{type(ex).__name__}: {ex}"
        res["obs"].append({"k": k, "n": [len(X), len(Y) if (two or form == "rule_newvar") else 0], "pulls": [pulls["x"], pulls["y"]], "build": build_events + after_evaluate_call,
                           "got": len(got), "first": rows(got, V, two, X, Y), "error": err, "again": again})
    return res


if __name__ == "__main__":
    worker_main(handle)
