"""Replay of CallShape.tla call shapes on Predicate subclasses and @symbolic_function (C12)."""
import itertools
from dataclasses import dataclass

from harness.core import worker_main

from krrood.entity_query_language.entity import entity, set_of, let
from krrood.entity_query_language.quantify_entity import an
from krrood.entity_query_language.predicate import Predicate, symbolic_function
from krrood.entity_query_language.symbolic import SymbolicExpression

LOG = []
NS = {"LOG": LOG, "Predicate": Predicate, "dataclass": dataclass, "symbolic_function": symbolic_function}
FUNS, PREDS = {}, {}


@dataclass(eq=False)
class Row:
    cells: tuple = ()


def body_src(n, prefix=""):
    terms = [f"{k} * {prefix}p{i}" for i, k in ((1, 1), (2, 2), (3, 3)) if i <= n]
    return "(" + " + ".join(terms) + ") % 3 != 0"


def get(n, ndef):
    key = (n, ndef)
    if key not in FUNS:
        params = ", ".join(f"p{i}" + (f"={i + 3}" if i > n - ndef else "") for i in range(1, n + 1))
        args = ", ".join(f"p{i}" for i in range(1, n + 1))
        src = f"@symbolic_function\ndef f_{n}_{ndef}({params}):\n    LOG.append(('f', ({args},)))\n    return {body_src(n)}\n"
        fields = "\n".join(f"    p{i}: int" + (f" = {i + 3}" if i > n - ndef else "") for i in range(1, n + 1))
        sargs = ", ".join(f"self.p{i}" for i in range(1, n + 1))
        src += (f"@dataclass(eq=False)\nclass P_{n}_{ndef}(Predicate):\n{fields}\n    def __call__(self):\n"
                f"        LOG.append(('P', ({sargs},)))\n        return {body_src(n, 'self.')}\n")
        # the same body returning a number (0 is falsy) instead of a bool: truth value, not identity with False, counts
        src += f"@symbolic_function\ndef g_{n}_{ndef}({params}):\n    LOG.append(('g', ({args},)))\n    return {body_src(n)[:-5]}\n"
        if n >= 2:
            # a predicate that inherits its first n-1 parameters from a base predicate and adds the last one
            bfields = "\n".join(f"    p{i}: int" + (f" = {i + 3}" if i > n - ndef else "") for i in range(1, n))
            last = f"    p{n}: int" + (f" = {n + 3}" if ndef >= 1 else "")
            bargs = ", ".join(f"self.p{i}" for i in range(1, n))
            src += (f"@dataclass(eq=False)\nclass B_{n}_{ndef}(Predicate):\n{bfields}\n    def __call__(self):\n"
                    f"        LOG.append(('B', ({bargs},)))\n        return True\n"
                    f"@dataclass(eq=False)\nclass D_{n}_{ndef}(B_{n}_{ndef}):\n{last}\n    def __call__(self):\n"
                    f"        LOG.append(('D', ({sargs},)))\n        return {body_src(n, 'self.')}\n")
        # all parameters positional-only; one parameter plus a var-positional rest (and **options)
        src += f"@symbolic_function\ndef h_{n}_{ndef}({params}, /):\n    LOG.append(('h', ({args},)))\n    return {body_src(n)}\n"
        if ndef == 0:
            src += (f"@symbolic_function\ndef w_{n}_{ndef}(p1, *rest, **options):\n    LOG.append(('w', (p1,) + rest))\n"
                    f"    return (p1 + sum((i + 2) * r for i, r in enumerate(rest))) % 3 != 0\n")
        if ndef == 0 and n >= 2:
            # one named parameter; the others travel as extra keywords through **options (absent = 0)
            opt = ", ".join(f"options.get('p{i}', 0)" for i in range(2, n + 1))
            body = "(p1 + " + " + ".join(f"{i} * options.get('p{i}', 0)" for i in range(2, n + 1)) + ") % 3 != 0"
            src += (f"@symbolic_function\ndef k_{n}_{ndef}(p1, **options):\n    LOG.append(('k', (p1, {opt},)))\n    return {body}\n")
            sbody = "(self.p1 + " + " + ".join(f"{i} * self.options.get('p{i}', 0)" for i in range(2, n + 1)) + ") % 3 != 0"
            sopt = ", ".join(f"self.options.get('p{i}', 0)" for i in range(2, n + 1))
            src += (f"class K_{n}_{ndef}(Predicate):\n    def __init__(self, p1, **options):\n        self.p1 = p1\n        self.options = options\n"
                    f"    def __call__(self):\n        LOG.append(('K', (self.p1, {sopt},)))\n        return {sbody}\n")
        # a predicate marked expensive (its arguments will be items of ONE object: x.cells[0], x.cells[1], ...)
        src += (f"@dataclass(eq=False)\nclass E_{n}_{ndef}(Predicate):\n    is_expensive = True\n{fields}\n    def __call__(self):\n"
                f"        LOG.append(('E', ({sargs},)))\n        return {body_src(n, 'self.')}\n")
        exec(src, NS)
        if ndef == 0 and n >= 2:
            FUNS[key + ("varkw",)] = NS[f"k_{n}_{ndef}"]
            PREDS[key + ("varkw",)] = NS[f"K_{n}_{ndef}"]
        PREDS[key + ("expensive",)] = NS[f"E_{n}_{ndef}"]
        FUNS[key + ("posonly",)] = NS[f"h_{n}_{ndef}"]
        if ndef == 0:
            FUNS[key + ("varargs",)] = NS[f"w_{n}_{ndef}"]
        FUNS[key], PREDS[key] = NS[f"f_{n}_{ndef}"], NS[f"P_{n}_{ndef}"]
        FUNS[key + ("int",)] = NS[f"g_{n}_{ndef}"]
        if n >= 2:
            PREDS[key + ("base",)], PREDS[key + ("derived",)] = NS[f"B_{n}_{ndef}"], NS[f"D_{n}_{ndef}"]
    return FUNS[key], PREDS[key]


def handle(case):
    n, ndef, np_, kw, vs = case["n"], case["ndef"], case["np"], case["kw"], case["vars"]
    f, P = get(n, ndef)
    out = {}
    kinds = [("function", f), ("predicate", P), ("function_int", FUNS[(n, ndef, "int")])]
    style = case.get("style", "plain")
    if style == "varkw":
        kinds = [("function", FUNS[(n, ndef, style)]), ("predicate", PREDS[(n, ndef, style)])]
    elif style != "plain":
        kinds = [("function", FUNS[(n, ndef, style)])]
    elif vs:
        # the same call as a later condition: every variable is already bound (by v >= 0) when the call is evaluated
        kinds += [("function_after_binding", f), ("predicate_after_binding", P)]
        # the number-valued function as an operand of a comparison: g(...) == 0
        kinds += [("function_int_equals_zero", FUNS[(n, ndef, "int")])]
        if len(vs) >= 2:
            # the variable arguments are items of ONE object: r.cells[0], r.cells[1], ... with r over every combination
            kinds += [("predicate_expensive_items", PREDS[(n, ndef, "expensive")]), ("function_items", f)]
    if style == "plain" and n >= 2 and not (ndef >= 1 and ndef < 1):
        try:
            # the base predicate is used first (concretely), then the derived one with the call shape under test
            PREDS[(n, ndef, "base")](*[i for i in range(1, n)])()
            kinds.append(("predicate_derived", PREDS[(n, ndef, "derived")]))
        except Exception:
            pass
    if style == "plain" and n == 1 and vs == [1] and not kw:
        # one expensive single-parameter predicate used twice in ONE query, on two items of the same object:
        # and_(E(r.cells[0]), E(r.cells[1])); and in a second, later query on the other item only
        E = PREDS[(n, ndef, "expensive")]
        rows = [Row(cells=tuple(c)) for c in itertools.product([0, 1, 2], repeat=2)]
        o = {}
        try:
            from krrood.entity_query_language.entity import and_
            rv = let(Row, rows, name="r")
            del LOG[:]
            first = sorted(list(x.cells) for x in an(entity(rv, and_(E(rv.cells[0]), E(rv.cells[1])))).evaluate())
            rv2 = let(Row, rows, name="r2")
            second = sorted(list(x.cells) for x in an(entity(rv2, E(rv2.cells[1]))).evaluate())
            o = {"both_items": first, "second_item_later": second}
        except Exception as ex:
            o = {"error": f"{type(ex).__name__}: {ex}"}
        out["expensive_predicate_on_two_items"] = o
    for kind, target in kinds:
        V = {i: let(int, [0, 1, 2], name=f"v{i}") for i in vs}
        val = lambda i: V[i] if i in V else i
        if kind.endswith("_items"):
            rows = [Row(cells=tuple(c)) for c in itertools.product([0, 1, 2], repeat=len(vs))]
            rv = let(Row, rows, name="r")
            pos = {i: k for k, i in enumerate(sorted(vs))}
            val = lambda i: rv.cells[pos[i]] if i in pos else i
        args = [val(i) for i in range(1, np_ + 1)]
        kwargs = {f"p{i}": val(i) for i in kw}
        del LOG[:]
        o = {}
        try:
            r = target(*args, **kwargs)
            o["calls_at_call_time"] = len(LOG) if kind.startswith("function") else None
            o["symbolic"] = isinstance(r, SymbolicExpression)
            if not o["symbolic"]:
                if kind.startswith("predicate"):
                    del LOG[:]
                    o["concrete_result"] = bool(r())
                    o["is_instance"] = isinstance(r, target)
                else:
                    o["concrete_result"] = bool(r)
            else:
                del LOG[:]
                order = sorted(V)
                if kind.endswith("_items"):
                    q = an(entity(rv, r))
                    o["solutions"] = sorted(list(x.cells) for x in q.evaluate())
                    o["calls_at_evaluation"] = sorted([list(a) for (_, a) in LOG])
                    out[kind] = o
                    continue
                if kind == "function_int_equals_zero":
                    r = (r == 0)
                if kind.endswith("_after_binding"):
                    q = an(set_of([V[i] for i in order], *[V[i] >= 0 for i in order], r))
                    sols = [[row[V[i]] for i in order] for row in q.evaluate()]
                elif len(order) == 1:
                    q = an(entity(V[order[0]], r))
                    sols = [[x] for x in q.evaluate()]
                else:
                    q = an(set_of([V[i] for i in order], r))
                    sols = [[row[V[i]] for i in order] for row in q.evaluate()]
                o["solutions"] = sorted(sols)
                o["calls_at_evaluation"] = sorted([list(a) for (_, a) in LOG])
        except Exception as ex:
            o["error"] = f"{type(ex).__name__}: {ex}"
        out[kind] = o
    return out


if __name__ == "__main__":
    worker_main(handle)
