"""Replay of FieldWrites.tla behaviours (C16) on the /verif family model: list field knows / set field known_by of `a`."""
import dataclasses
import gc
import itertools

from harness.core import worker_main

from krrood.entity_query_language.symbol_graph import SymbolGraph
from harness.models.sgmodel import FPerson


FALSY = [False]
FPerson.__bool__ = lambda self: not FALSY[0]      # switchable truth value of every instance (falsy Symbols are legal values)


def arg(objs, kind):
    """The same elements as a list, a tuple or a one-shot iterator (any iterable is a legal argument of extend/update/+=)."""
    if kind == "tuple":
        return tuple(objs)
    if kind == "gen":
        return (o for o in objs)
    if kind == "iter":
        return iter(objs)
    return list(objs)


def apply(inst, op, ak="list"):
    a = inst["a"]
    k = op["k"]
    e = lambda n: inst[n]
    if k == "assign_list":
        a.knows = [e(n) for n in op["v"]]
    elif k == "self_assign_list":
        a.knows = a.knows
    elif k == "iadd_list":
        a.knows += arg([e(n) for n in op["v"]], ak)
    elif k == "append":
        a.knows.append(e(op["x"]))
    elif k == "extend":
        a.knows.extend(arg([e(n) for n in op["v"]], ak))
    elif k == "insert":
        a.knows.insert(op["i"], e(op["x"]))
    elif k == "setitem":
        a.knows[op["i"]] = e(op["x"])
    elif k == "setslice":
        a.knows[op["i"]:op["j"]] = [e(n) for n in op["v"]]
    elif k == "assign_set":
        a.known_by = {e(n) for n in op["v"]}
    elif k == "self_assign_set":
        a.known_by = a.known_by
    elif k == "ior_set":
        a.known_by |= {e(n) for n in op["v"]}
    elif k == "add":
        a.known_by.add(e(op["x"]))
    elif k == "update":
        a.known_by.update(arg([e(n) for n in op["v"]], ak))
    elif k == "remove":
        a.knows.remove(e(op["x"]))
    elif k == "pop":
        a.knows.pop()
    elif k == "delitem":
        del a.knows[op["i"]]
    elif k == "clear_list":
        a.knows.clear()
    elif k == "discard":
        a.known_by.discard(e(op["x"]))
    elif k == "clear_set":
        a.known_by.clear()
    elif k == "assign_view_list":
        # a lazily evaluated iterable that reads the very field it is assigned to
        v = op["view"]
        a.knows = (reversed(a.knows) if v == "reversed" else (x for x in a.knows) if v == "gen"
                   else itertools.chain(a.knows, [e(op["x"])]))
    elif k == "assign_view_set":
        v = op["view"]
        a.known_by = ((x for x in list(a.known_by)) if v == "reversed" else (x for x in a.known_by) if v == "gen"
                      else itertools.chain(a.known_by, [e(op["x"])]))
    elif k == "replace":
        # the constructor of the new object receives a's managed containers as the first values of its own fields
        inst["a2"] = dataclasses.replace(a, name="a2")
    else:
        raise ValueError(k)


def observe(inst):
    names = {id(o): n for n, o in inst.items()}
    rels = set()
    for r in SymbolGraph().relations():
        s, t = r.source.instance, r.target.instance
        if s is not None and t is not None:
            rels.add((r.wrapped_field.public_name, names.get(id(s), "?"), names.get(id(t), "?")))
    a = inst["a"]
    inv = {}
    for n, o in inst.items():
        if n != "a":
            inv[n] = {"knows": sorted(names.get(id(x), "?") for x in o.knows),
                      "known_by": sorted(names.get(id(x), "?") for x in o.known_by)}
    return {"lst": [names.get(id(x), "?") for x in a.knows], "st": sorted(names.get(id(x), "?") for x in a.known_by),
            "rels": sorted(rels), "inv": inv,
            "types": [type(a.knows).__name__, type(a.known_by).__name__]}


def handle(case):
    gc.collect()
    SymbolGraph().clear()
    SymbolGraph()
    inst = {n: FPerson(name=n) for n in "abcd"}
    FALSY[0] = bool(case.get("falsy"))
    steps = []
    prev = set()
    reused = 0
    for st in case["h"]:
        out = {}
        if case.get("churn"):
            # short-lived elements: whatever is in neither field of `a` dies now and a fresh object takes its name
            for n in "bcd":
                if n not in prev:
                    addr = id(inst[n])
                    del inst[n]
                    inst[n] = FPerson(name=n)
                    reused += id(inst[n]) == addr
            prev = set(st["lst"]) | set(st["st"])
        try:
            apply(inst, st["op"], case.get("ak", "list"))
        except Exception as ex:
            out["error"] = f"{type(ex).__name__}: {ex}"
        out.update(observe(inst))
        steps.append(out)
    inst.clear()
    FALSY[0] = False
    return {"steps": steps, "addr_reuse": reused}


def setup(args):
    gc.collect()
    gc.freeze()
    gc.disable()
    return None


if __name__ == "__main__":
    worker_main(lambda c, s: handle(c), setup)
