"""Replay of Ontology.tla behaviours on real descriptor-managed fields (C15, C16, suffix of C14) + H1/H3 events.

Case: {"model": "univ"|"family", "h": [{"f": [prop, s, t], ...}], "form": "elem"|"bulk"|"assign", "prefix": [...] (optional)}
Result: {"steps": [{"rels": [[prop,s,t]...], "fields": {inst: {prop: [targets...]}}, "error": ...}], "events": [...]}
"""
import gc
import sys
import weakref

from harness.core import worker_main

import krrood.verif_hooks as vh
from krrood.entity_query_language.symbol_graph import SymbolGraph
from harness.models import sgmodel
from harness.models.sgmodel import FPerson
from krrood.entity_query_language.entity import entity, let
from krrood.entity_query_language.quantify_entity import an
from test.dataset.university_ontology_like_classes import Company, Person, CEO

FIELD = {"sub": "sub_organization_of"}
PROP = {"sub_organization_of": "sub"}
UNIV_PROPS = {"Person": ["works_for", "member_of"], "Company": ["members", "sub"], "CEO": ["head_of"]}
FAMILY_PROPS = ["related_to", "ancestor_of", "descendant_of", "knows", "known_by", "best_friend_of", "mentor_of", "teaches", "taught_by"]
SINGLE = {"works_for", "head_of"}

# truth value of every model instance, switchable per case (a Symbol whose class defines __bool__ may be falsy while alive)
FALSY = [False]
for _k in (Person, Company, CEO, FPerson, sgmodel.GRegion):
    _k.__bool__ = lambda self: not FALSY[0]

EVENTS = []
ADDR = {}     # address -> instance name (for instances of the current case)
IDX = {}      # node index -> instance name


def sink(ev, fields):
    if ev == "add_node":
        name = ADDR.get(fields.get("addr"))
        IDX[fields["idx"]] = name
        return
    if ev == "remove_node":
        IDX.pop(fields["idx"], None)
        return
    if ev == "clear":
        IDX.clear()
        return
    if ev == "add_relation":
        f = fields["f"]
        EVENTS.append({"a": "rel", "p": PROP.get(f, f), "s": IDX.get(fields["s"]) or "?", "t": IDX.get(fields["t"]) or "?",
                       "inferred": bool(fields["inferred"]), "added": bool(fields["added"])})


OLD_IDS = {"P": set(), "C": set()}     # addresses of the dense dead population, per role


def make_world(model, order=None):
    """Instances are created one by one so that the registration event of each can be named."""
    inst = {}
    junk = []

    def mk(name, fn):
        before = len(IDX)
        o = fn()
        role = "P" if isinstance(o, Person) else "C" if isinstance(o, Company) else None
        if role and OLD_IDS[role]:
            # encourage address reuse in the same role: keep creating until the allocator hands out an address at which an
            # instance of the dense dead population lived (the rejected ones stay alive until the world is complete)
            for _ in range(400):
                if id(o) in OLD_IDS[role]:
                    break
                junk.append(o)
                o = fn()
        ADDR[id(o)] = name
        for k, v in list(IDX.items()):
            if v is None:
                IDX[k] = name
        inst[name] = o
    if model == "univ":
        for n in (order or ("p1", "p2", "c1", "c2", "c3", "ceo")):
            if n == "ceo":
                mk("ceo", lambda: CEO(inst["p1"]))
            elif n.startswith("p"):
                mk(n, lambda n=n: Person(name=n))
            else:
                mk(n, lambda n=n: Company(name=n))
    elif model == "geo":
        for n in ("r1", "r2", "r3", "r4"):
            mk(n, lambda n=n: (sgmodel.GCity if n in ("r1", "r3") else sgmodel.GRegion)(name=n))
    else:
        for n in "abcd":
            mk(n, lambda n=n: FPerson(name=n))
    return inst


def props_of(model, name, obj):
    if model == "univ":
        return UNIV_PROPS[type(obj).__name__]
    if model == "geo":
        return ["located_in", "directly_in"]
    return FAMILY_PROPS


def observe(model, inst):
    names = {id(o): n for n, o in inst.items()}
    rels = set()
    for r in SymbolGraph().relations():
        s, t = r.source.instance, r.target.instance
        if s is None or t is None:
            continue
        f = r.wrapped_field.public_name
        if id(s) not in names and id(t) not in names:
            continue      # both ends belong to an earlier population that the scenario keeps alive
        rels.add((PROP.get(f, f), names.get(id(s), "?"), names.get(id(t), "?")))
    fields = {}
    for n, o in inst.items():
        d = {}
        for p in props_of(model, n, o):
            v = getattr(o, FIELD.get(p, p))
            if p in SINGLE:
                d[p] = [] if v is None else [names.get(id(v), "?")]
            else:
                d[p] = [names.get(id(x), "?") for x in v]
                d[p] = d[p] if isinstance(v, list) else sorted(d[p])
        fields[n] = d
    return sorted(rels), fields


def assert_fact(model, inst, f, form):
    p, s, t = f
    so, to = inst[s], inst[t]
    attr = FIELD.get(p, p)
    if p in SINGLE:
        setattr(so, attr, to)
        return "assign-single"
    cur = getattr(so, attr)
    is_list = isinstance(cur, list)
    if form == "assign" and len(cur) == 0:
        setattr(so, attr, [to] if is_list else {to})
        return "assign-container"
    if form == "bulk":
        if is_list:
            cur.extend([to])
        else:
            cur.update({to})
        return "bulk"
    if form == "iadd":
        # augmented assignment: the container's own in-place operator, then the field is set to the container it already holds
        if is_list:
            cur += [to]
        else:
            cur |= {to}
        setattr(so, attr, cur)
        return "iadd"
    if form == "insert" and is_list:
        cur.insert(0, to)
        return "insert"
    if is_list:
        cur.append(to)
    else:
        cur.add(to)
    return "elem"


KEEP = []


def old_world(step):
    """An earlier population of the same shape: created in the given order, related, then dropped except `keep`."""
    old = {}
    for n in step["order"]:
        if n.startswith("p"):
            old[n] = Person(name="old_" + n)
        elif n.startswith("c") and n != "ceo":
            old[n] = Company(name="old_" + n)
        elif n == "ceo":
            old[n] = CEO(old["p1"])
        else:
            old[n] = FPerson(name="old_" + n)
    for f in step["facts"]:
        try:
            assert_fact(step["model"], old, f, "elem")
        except Exception:
            pass
    if step.get("retire_roles") and "ceo" in old:
        # the role steps down: nothing references the role object any more, while its taker may live on
        for c in old.values():
            if isinstance(c, Company):
                c.members.discard(old["ceo"])
    for n in step.get("keep", []):
        KEEP.append(old[n])
    old.clear()


def run_prefix(prefix):
    """C14: objects that lived, were related and died before the scenario (their node indices get recycled)."""
    if not prefix:
        return
    for step in prefix:
        k = step["k"]
        if k == "pair":          # a person working for a company, both dropped
            c = Company(name="old_c"); p = Person(name="old_p"); p.works_for = c
            if step.get("role"):
                r = CEO(p); r.head_of = c
                del r
            del p, c
        elif k == "chain":       # a chain of sub organisations, dropped
            cs = [Company(name=f"old{i}") for i in range(step.get("n", 3))]
            for a, b in zip(cs, cs[1:]):
                a.sub_organization_of.append(b)
            del cs, a, b
        elif k == "family":
            xs = [FPerson(name=f"old{i}") for i in range(3)]
            xs[0].ancestor_of.append(xs[1]); xs[1].ancestor_of.append(xs[2]); xs[0].knows.append(xs[2])
            del xs
        elif k == "dense":
            # a large population in which every person was a member of every company: whatever address a new person and a new
            # company are given, a dead related pair may have lived there
            ps = [Person(name=f"old_p{i}") for i in range(step.get("n", 40))]
            cs = [Company(name=f"old_c{i}") for i in range(step.get("n", 40))]
            for p in ps:
                p.member_of = list(cs)
            OLD_IDS["P"] = {id(p) for p in ps}
            OLD_IDS["C"] = {id(c) for c in cs}
            del ps, cs, p
        elif k == "world":
            old_world(step)
        elif k == "collect":
            gc.collect()
        elif k == "sweep":
            SymbolGraph().remove_dead_instances()


def handle_loop(case):
    """C20 on Ontology behaviours: build a population, assert the facts, drop every reference, collect, sweep - repeatedly.
    Nothing of an iteration may remain: no live instance, no node, no relation, no bookkeeping entry, no krrood object."""
    import weakref
    from harness.replay.footprint import registry_footprint, krrood_census
    from krrood.entity_query_language.entity import entity, let
    from krrood.entity_query_language.quantify_entity import an
    gc.collect()
    SymbolGraph().clear()
    SymbolGraph()
    vh.install(None)
    model = case["model"]
    growth = []
    for it in range(case.get("loops", 3)):
        inst = make_world(model, case.get("world_order"))
        refs = [weakref.ref(o) for o in inst.values()]
        for st in case["h"]:
            try:
                assert_fact(model, inst, st["f"], case.get("form", "elem"))
            except Exception:
                pass
        inst.clear()
        ADDR.clear()
        IDX.clear()
        gc.collect()
        if case.get("end", "sweep") == "sweep":
            SymbolGraph().remove_dead_instances()
        else:
            list(an(entity(let(sgmodel.Other, []))).evaluate())
        g = SymbolGraph()
        growth.append({"alive_after_discard": sum(r() is not None for r in refs), "nodes": len(g.wrapped_instances),
                       "relations": len(list(g.relations())), "footprint": registry_footprint(), "krrood": dict(krrood_census())})
    return {"growth": growth, "end_query_footprint": end_query_footprint()}


_EQF = {}


def end_query_footprint():
    """Calibration: what one evaluation of the end-of-iteration query leaves behind in krrood-typed objects (finding F24)."""
    if not _EQF:
        from harness.replay.footprint import krrood_census
        from krrood.entity_query_language.entity import entity, let
        from krrood.entity_query_language.quantify_entity import an
        list(an(entity(let(sgmodel.Other, []))).evaluate())
        gc.collect()
        c0 = krrood_census()
        list(an(entity(let(sgmodel.Other, []))).evaluate())
        gc.collect()
        c1 = krrood_census()
        _EQF.update({t: c1[t] - c0.get(t, 0) for t in c1 if c1[t] != c0.get(t, 0)})
    return dict(_EQF)


def handle(case):
    global EVENTS
    if case.get("mode") == "loop":
        return handle_loop(case)
    gc.collect()
    SymbolGraph().clear()
    SymbolGraph()
    EVENTS = []
    ADDR.clear()
    IDX.clear()
    model = case["model"]
    res = {"steps": [], "how": []}
    vh.install(sink)
    OLD_IDS["P"], OLD_IDS["C"] = set(), set()
    FALSY[0] = bool(case.get("falsy"))
    try:
        run_prefix(case.get("prefix"))
        EVENTS = []
        inst = make_world(model, case.get("world_order"))
        res["world_at_dead_addresses"] = sum(1 for o in inst.values() if id(o) in OLD_IDS["P"] or id(o) in OLD_IDS["C"])
        for k, st in enumerate(case["h"]):
            if st["f"][0] == "die":
                # part of the population dies: the references are dropped, the objects reclaimed, the registry swept
                out = {}
                refs = [weakref.ref(inst[n]) for n in st["die"]]
                for n in st["die"]:
                    del inst[n]
                gc.collect()
                if k % 2:
                    SymbolGraph().remove_dead_instances()
                else:
                    list(an(entity(let(sgmodel.Other, []))).evaluate())       # any evaluation sweeps
                out["still_alive"] = [n for n, r in zip(st["die"], refs) if r() is not None]
                out["rels"], out["fields"] = observe(model, inst)
                res["steps"].append(out)
                res["how"].append("die")
                continue
            EVENTS.append({"a": "assert", "p": st["f"][0], "s": st["f"][1], "t": st["f"][2]})
            out = {}
            try:
                res["how"].append(assert_fact(model, inst, st["f"], case.get("form", "elem")))
            except Exception as ex:
                out["error"] = f"{type(ex).__name__}: {ex}"
            EVENTS.append({"a": "quiescent"})
            out["rels"], out["fields"] = observe(model, inst)
            res["steps"].append(out)
    finally:
        vh.install(None)
        FALSY[0] = False
    res["events"] = EVENTS
    EVENTS = []
    inst.clear()
    KEEP.clear()
    gc.collect()
    return res


def setup(args):
    gc.collect()
    gc.freeze()
    gc.disable()
    SymbolGraph().clear()
    SymbolGraph()
    return None


if __name__ == "__main__":
    worker_main(lambda c, s: handle(c), setup)
