"""Replay of SeenSet.tla behaviours on the real coverage index (C08 component)."""
from harness.core import worker_main

from krrood.entity_query_language.cache_data import SeenSet


def handle(case):
    ss = SeenSet(keys=("a", "b")) if case["with_keys"] else SeenSet()
    obs = []
    for st in case["h"]:
        a = {k: st["a"][k] for k in st["keys"]}
        try:
            if st["op"] == "add":
                ss.add(a)
                obs.append(None)
            elif st["op"] == "check":
                obs.append(bool(ss.check(a)))
            else:
                ss.clear()
                obs.append(None)
        except Exception as ex:
            obs.append(f"{type(ex).__name__}: {ex}")
    return {"obs": obs}


if __name__ == "__main__":
    worker_main(handle)
