"""Replay of Quantifier behaviours on the real result quantifiers (C09)."""
import sys
from dataclasses import dataclass

from harness.core import worker_main

from krrood.entity_query_language.entity import entity, set_of, let
from krrood.entity_query_language.quantify_entity import an, the
from krrood.entity_query_language import result_quantification_constraint as rq


@dataclass(eq=False)
class Item:
    ok: bool
    tag: int


@dataclass(eq=False)
class FalsyItem(Item):
    """An element whose truth value is False (an empty container-like object)."""

    def __len__(self):
        return 0


def make_constraint(kind, lo, hi):
    if kind == "none":
        return None
    if kind == "atleast":
        return rq.AtLeast(lo)
    if kind == "atmost":
        return rq.AtMost(hi)
    if kind == "exactly":
        return rq.Exactly(lo)
    if kind == "range":
        return rq.Range(rq.AtLeast(lo), rq.AtMost(hi))
    raise ValueError(kind)


def domain(n, form):
    if form == "nocond":
        return [Item(True, i) for i in range(n)]
    if form == "typed":
        # the solutions are the only values of the variable's type; everything else in the domain is of other types
        out = ["x", 3]
        for i in range(n):
            out += [Item(True, i), object()]
        return out
    K = FalsyItem if form == "falsy" else Item
    items = [K(False, -1)]
    for i in range(n):
        items.append(K(True, i))
        if i % 2 == 0:
            items.append(K(False, -2 - i))
    return items


def build(kind, c, form, dom):
    x = let(Item, dom, name="x")
    if form in ("entity", "falsy", "pair"):
        d = entity(x, x.ok == True)
    elif form == "setof":
        d = set_of([x], x.ok == True)
    elif form in ("nocond", "typed"):
        d = entity(x)
    elif form == "two":
        d = entity(x, x.ok == True, x.tag >= 0)
    else:
        raise ValueError(form)
    if kind == "the":
        return the(d), x
    return an(d, quantification=c), x


def handle_pair(case):
    """Two live evaluations of one quantified query object, stepped as the schedule says (QuantifierPair.tla).
    The variable's domain is warmed by one complete unquantified evaluation first, so that the iterators replay
    the domain cache (interleaving cold iterators over one variable is C03's open finding, not C09's business)."""
    kind, lo, hi, n = case["kind"], case["lo"], case["hi"], case["n"]
    c = make_constraint(kind, lo, hi)
    dom = domain(n, "pair")
    x = let(Item, dom, name="x")
    warm = list(an(entity(x, x.ok == True)).evaluate())
    assert len(warm) == n
    q = an(entity(x, x.ok == True), quantification=c)
    its, seen, obs = {}, {1: set(), 2: set()}, []
    for st in case["h"]:
        i = st["i"]
        if st["o"] == "start":
            its[i] = iter(q.evaluate())
            obs.append({"i": i, "o": "start"})
            continue
        try:
            v = next(its[i])
        except StopIteration:
            obs.append({"i": i, "o": "stop"})
            continue
        except Exception as ex:
            obs.append({"i": i, "o": type(ex).__name__})
            continue
        if not isinstance(v, Item) or not v.ok:
            obs.append({"i": i, "o": "non-solution"})
        elif id(v) in seen[i]:
            obs.append({"i": i, "o": "duplicate"})
        else:
            seen[i].add(id(v))
            obs.append({"i": i, "o": str(len(seen[i]))})
    return {"obs": obs}


@dataclass(eq=False)
class Employee:
    name: str
    department: int
    active: bool = True


@dataclass(eq=False)
class Department:
    id: int


def handle_nested(case):
    """the(...) nested in an enclosing query and correlated with it (NestedThe.tla): binding b of the enclosing
    variable has counts[b] solutions. Observed per next(): the row (binding, binding whose solution was used), an
    exception class, or stop."""
    counts = case["counts"]
    deps = [Department(b + 1) for b in range(len(counts))]
    emps = []
    for b, c in enumerate(counts):
        for j in range(c):
            emps.append(Employee(f"e{b + 1}_{j}", b + 1))
    emps.append(Employee("nobody", 99))
    if case["variant"] % 2:
        emps.reverse()
    department = let(Department, deps, name="department")
    employee = let(Employee, emps, name="employee")
    head = the(entity(employee, employee.department == department.id))
    name = let(str, [e.name for e in emps], name="name")
    if case["variant"] < 2:
        q = an(set_of([department, name], department.id >= 0, head.name == name))
    else:
        q = an(set_of([name, department], name == head.name))
    row = lambda r: ["row", r[department].id, int(r[name][1:].split("_")[0])]
    obs = []
    it = iter(q.evaluate())
    for _ in range(len(counts) + 2):
        try:
            r = next(it)
        except StopIteration:
            obs.append(["stop"])
            break
        except Exception as ex:
            obs.append([type(ex).__name__])
            break
        obs.append(row(r))
    return {"obs": obs}


def handle(case):
    if case.get("form") == "pair":
        return handle_pair(case)
    if case.get("form") == "nested":
        return handle_nested(case)
    kind, lo, hi, n, form = case["kind"], case["lo"], case["hi"], case["n"], case["form"]
    obs = []
    try:
        c = make_constraint(kind, lo, hi) if kind != "the" else None
    except Exception as ex:  # construction outcome
        return {"obs": [type(ex).__name__]}
    dom = domain(n, form)
    q, x = build(kind, c, form, dom)
    def observe():
        obs = []
        if kind == "the":
            try:
                v = q.evaluate()
                if form == "setof":
                    v = v[x]
                obs.append("1" if (isinstance(v, Item) and v.ok) else "bad-value")
            except Exception as ex:
                obs.append(type(ex).__name__)
            return obs
        it = iter(q.evaluate())
        seen = set()
        for _ in range(n + 3):
            try:
                v = next(it)
            except StopIteration:
                obs.append("stop")
                break
            except Exception as ex:
                obs.append(type(ex).__name__)
                break
            if form == "setof":
                v = v[x]
            if not isinstance(v, Item) or not v.ok:
                obs.append("non-solution")
            elif id(v) in seen:
                obs.append("duplicate")
            else:
                seen.add(id(v))
                obs.append(str(len(seen)))
        return obs
    first = observe()
    # the same query object evaluated again (and a third time): the count rule holds for every evaluation
    again = [observe(), observe()]
    return {"obs": first, "again": again, "the": kind == "the"}


if __name__ == "__main__":
    worker_main(handle)
