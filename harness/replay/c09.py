"""Replay of Quantifier behaviours on the real result quantifiers (C09)."""
import sys
from dataclasses import dataclass

from harness.core import worker_main

from krrood.entity_query_language.entity import entity, set_of, let
from krrood.entity_query_language.quantify_entity import an, the
from krrood.entity_query_language import result_quantification_constraint as rq


@dataclass(eq=False)
class Item:
    ok: bool
    tag: int


def make_constraint(kind, lo, hi):
    if kind == "none":
        return None
    if kind == "atleast":
        return rq.AtLeast(lo)
    if kind == "atmost":
        return rq.AtMost(hi)
    if kind == "exactly":
        return rq.Exactly(lo)
    if kind == "range":
        return rq.Range(rq.AtLeast(lo), rq.AtMost(hi))
    raise ValueError(kind)


def domain(n, form):
    if form == "nocond":
        return [Item(True, i) for i in range(n)]
    items = [Item(False, -1)]
    for i in range(n):
        items.append(Item(True, i))
        if i % 2 == 0:
            items.append(Item(False, -2 - i))
    return items


def build(kind, c, form, dom):
    x = let(Item, dom, name="x")
    if form == "entity":
        d = entity(x, x.ok == True)
    elif form == "setof":
        d = set_of([x], x.ok == True)
    elif form == "nocond":
        d = entity(x)
    elif form == "two":
        d = entity(x, x.ok == True, x.tag >= 0)
    else:
        raise ValueError(form)
    if kind == "the":
        return the(d), x
    return an(d, quantification=c), x


def handle(case):
    kind, lo, hi, n, form = case["kind"], case["lo"], case["hi"], case["n"], case["form"]
    obs = []
    try:
        c = make_constraint(kind, lo, hi) if kind != "the" else None
    except Exception as ex:  # construction outcome
        return {"obs": [type(ex).__name__]}
    dom = domain(n, form)
    q, x = build(kind, c, form, dom)
    if kind == "the":
        try:
            v = q.evaluate()
            if form == "setof":
                v = v[x]
            obs.append("1" if (isinstance(v, Item) and v.ok) else "bad-value")
        except Exception as ex:
            obs.append(type(ex).__name__)
        return {"obs": obs, "the": True}
    it = iter(q.evaluate())
    seen = set()
    for _ in range(n + 3):
        try:
            v = next(it)
        except StopIteration:
            obs.append("stop")
            break
        except Exception as ex:
            obs.append(type(ex).__name__)
            break
        if form == "setof":
            v = v[x]
        if not isinstance(v, Item) or not v.ok:
            obs.append("non-solution")
        elif id(v) in seen:
            obs.append("duplicate")
        else:
            seen.add(id(v))
            obs.append(str(len(seen)))
    return {"obs": obs}


if __name__ == "__main__":
    worker_main(handle)
