"""Replay of Match.tla patterns through entity_matching / match / match_any / match_all / select (C11)."""
from harness.core import worker_main

from krrood.entity_query_language.symbol_graph import SymbolGraph
from krrood.entity_query_language.match import (entity_matching, entity_selection, match, match_any, match_all, select)
from krrood.entity_query_language.quantify_entity import an
from test.dataset.semantic_world_like_classes import Cabinet, Drawer, Handle, Container, Body, FruitBox, Apple



class EmptyishCabinet(Cabinet):
    """A cabinet whose truth value is False (a collection-like object that is empty)."""

    def __len__(self):
        return 0


SymbolGraph()


def world(falsy=False):
    c = {"c1": Container("c1"), "c2": Container("c2"), "c1b": Container("c1")}
    h = {"h1": Handle("h1"), "h2": Handle("h2")}
    d = {"d1": Drawer(handle=h["h1"], container=c["c1"], correct=False), "d2": Drawer(handle=h["h2"], container=c["c2"], correct=True),
         "d3": Drawer(handle=h["h1"], container=c["c1b"], correct=True)}
    kc = {"k0": "c1", "k1": "c2", "k2": "c1", "k3": "c1b", "k4": "c2", "k5": "c2"}
    kd = {"k0": ["d1", "d2"], "k1": ["d1", "d2"], "k2": ["d1"], "k3": [], "k4": ["d3"], "k5": ["d1", "d3"]}
    k = {n: (EmptyishCabinet if falsy and n in ("k0", "k2") else Cabinet)(container=c[kc[n]], drawers=[d[x] for x in kd[n]]) for n in kc}
    return c, h, d, k


TYPES = {"Container": Container, "Body": Body}


def kwargs_for(pc, pd, c, d, sel, seld=False):
    kw = {}
    if pc[0] == "lit":
        kw["container"] = c[pc[1]]
    elif pc[0] == "match":
        m = (select if sel else match)(TYPES[pc[1]])
        kw["container"] = m(name=pc[2]) if pc[2] != "*" else m()
    if pd[0] == "correct":
        kw["drawers"] = match(Drawer)(correct=True)
    elif pd[0] == "lit":
        kw["drawers"] = d[pd[1]]
    elif pd[0] == "match":
        inner = {}
        if pd[1] != "*":
            inner["handle"] = match(Handle)(name=pd[1])
        if pd[2] != "*":
            inner["container"] = match(Container)(name=pd[2])
        kw["drawers"] = (select if seld else match)(Drawer)(**inner)
    elif pd[0] == "any":
        kw["drawers"] = match_any([d[x] for x in sorted(pd[1])])
    elif pd[0] == "all":
        kw["drawers"] = match_all([d[x] for x in sorted(pd[1])])
    return kw


def fruit(case):
    fr = {"apple_a": Apple("a"), "apple_b": Apple("b"), "body_x": Body("a"), "body_y": Body("y")}
    bf = {"b0": ["apple_a", "body_x"], "b1": ["body_x", "body_y"], "b2": ["apple_b"], "b3": []}
    boxes = {n: FruitBox(n, [fr[x] for x in xs]) for n, xs in bf.items()}
    names = {id(o): n for n, o in boxes.items()}
    T = {"Apple": Apple, "Body": Body}[case["p"][0]]
    m = match(T)(name=case["p"][1]) if case["p"][1] != "*" else match(T)()
    dom = [boxes[n] for n in sorted(boxes)]
    if case.get("reverse"):
        dom.reverse()
    try:
        q = an(entity_matching(FruitBox, dom)(fruits=m))
        return {"cabinets": [names.get(id(r), "?") for r in q.evaluate()]}
    except Exception as ex:
        return {"error": f"{type(ex).__name__}: {ex}"}


def handle(case):
    if "p" in case:
        return fruit(case)
    c, h, d, k = world(case.get("falsy", False))
    names = {id(o): n for dd in (c, h, d, k) for n, o in dd.items()}
    cabs = [k[n] for n in sorted(k)]
    if case.get("reverse"):
        cabs.reverse()
    out = {}
    try:
        q = an(entity_matching(Cabinet, cabs)(**kwargs_for(case["pc"], case["pd"], c, d, False)))
        out["cabinets"] = [names.get(id(r), "?") for r in q.evaluate()]
        # an in-place edit of an attribute value, then the SAME query object is evaluated again
        k["k2"].drawers.append(d["d2"])
        out["cabinets_after_edit"] = [names.get(id(r), "?") for r in q.evaluate()]
        k["k2"].drawers.pop()
        # an explicitly EMPTY domain: nothing can match, whatever instances of the type exist elsewhere in the process
        q0 = an(entity_matching(Cabinet, [])(**kwargs_for(case["pc"], case["pd"], c, d, False)))
        out["cabinets_empty_domain"] = [names.get(id(r), "?") for r in q0.evaluate()]
    except Exception as ex:
        out["error"] = f"{type(ex).__name__}: {ex}"
    if case["pc"][0] == "match":
        try:
            cab = entity_selection(Cabinet, cabs)
            q = an(cab(**kwargs_for(case["pc"], case["pd"], c, d, True)))
            rows = []
            for r in q.evaluate():
                vals = [names.get(id(v), "?") for v in r.values()] if hasattr(r, "values") else [names.get(id(r), "?")]
                rows.append(sorted(vals, key=lambda s: (not s.startswith("k"), s)))
            out["selected"] = rows
        except Exception as ex:
            out["select_error"] = f"{type(ex).__name__}: {ex}"
    if case["pd"][0] == "match" and not case.get("falsy"):
        # select(Drawer)(...) directly on the collection attribute: reports, per matched cabinet, the drawer that matched
        try:
            cab = entity_selection(Cabinet, cabs)
            q = an(cab(**kwargs_for(case["pc"], case["pd"], c, d, False, seld=True)))
            rows = []
            for r in q.evaluate():
                vs = list(r.values()) if hasattr(r, "values") else [r]
                # the whole collection attribute is reported next to the flattened element: not part of the comparison
                vals = [names.get(id(v), repr(type(v).__name__)) for v in vs if not isinstance(v, list)]
                rows.append(sorted(vals, key=lambda s: (not s.startswith("k"), s)))
            out["selected_drawers"] = rows
        except Exception as ex:
            out["select_drawers_error"] = f"{type(ex).__name__}: {ex}"
    return out


if __name__ == "__main__":
    worker_main(handle)
