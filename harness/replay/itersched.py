"""Replay of IterSched.tla schedules on real evaluations (C03)."""
from dataclasses import dataclass, field
from typing import List

from harness.core import worker_main

from krrood.entity_query_language.entity import entity, set_of, let, and_, or_, not_, in_, exists
from krrood.entity_query_language.quantify_entity import an
from krrood.entity_query_language.conclusion import Add
from krrood.entity_query_language.entity import inference
from krrood.entity_query_language.rule import refinement, alternative, next_rule
from krrood.entity_query_language.predicate import Symbol


@dataclass(eq=False)
class E:
    n: int


@dataclass(eq=False)
class F:
    n: int
    flag: bool


@dataclass(eq=False)
class T0(Symbol):
    p: E


@dataclass(eq=False)
class T1(Symbol):
    p: E


@dataclass(eq=False)
class Box:
    items: List[E] = field(default_factory=list)


def build(family, n, cold):
    objs = [E(i + 1) for i in range(n)]
    dom = (o for o in objs) if cold else list(objs)
    x = let(E, dom, name="x")
    if family == "same":
        q = an(entity(x, x.n >= 0))
        qs = {1: q, 2: q}
    elif family == "shared_var":
        qs = {1: an(entity(x, x.n >= 0)), 2: an(entity(x, x.n < 100))}
    elif family == "setof":
        q = an(set_of([x], x.n >= 0))
        qs = {1: q, 2: q}
    elif family == "shared_cond":
        c = x.n >= 0                      # one condition node used by two queries
        qs = {1: an(entity(x, c)), 2: an(set_of([x], c))}
    elif family == "exists":
        boxes = [Box([objs[0]]), Box(list(objs)), Box([objs[-1], objs[0]])]
        b = let(Box, boxes, name="b")
        q = an(entity(x, exists(x, in_(x, b.items))))     # the documented idiom: one result per x that is in some box
        qs = {1: q, 2: q}
    elif family == "rule_grow":
        # a rule written incrementally: the base rule is evaluated once, THEN one refinement is added; every later evaluation
        # of the extended rule returns the same (the per-evaluation state of the new branch is reset like everyone else's)
        q = an(entity(v := let(T0, None), x.n >= 0))
        with q:
            Add(v, inference(T0)(p=x))
        list(q.evaluate())
        with q:
            with refinement(x.n >= 2):
                Add(v, inference(T1)(p=x))
        qs = {1: q, 2: q}
    elif family in ("rule_refine", "rule_alt", "rule_next"):
        # a rule query: every element gets exactly one conclusion, so the k-th result belongs to the k-th element
        q = an(entity(v := let(T0, None), x.n >= 0))
        with q:
            Add(v, inference(T0)(p=x))
            if family == "rule_refine":
                with refinement(x.n >= 2):
                    Add(v, inference(T1)(p=x))
            elif family == "rule_alt":
                with alternative(x.n < 0):
                    Add(v, inference(T1)(p=x))
            else:
                with next_rule(x.n < 0):
                    Add(v, inference(T1)(p=x))
        qs = {1: q, 2: q}
    elif family == "bare_var":
        # two queries share a variable over ints; one uses the variable itself as a condition (its last candidate is falsy)
        ints = [3, 7, 2, 0][:max(n, 3)] if n >= 4 else [3, 2, 0]
        x = let(int, (i for i in ints) if cold else list(ints), name="x")
        qs = {1: an(entity(x, and_(x < 5, x))), 2: an(entity(x, x >= 1, x <= 7))}
    elif family in ("shared_mapping", "shared_mapping_root"):
        # ONE attribute node shared by two queries: used for its value (operand of a comparison) in the first and for
        # its truth value (a condition of its own) in the second
        fs = [F(i + 1, i % 2 == 0) for i in range(max(n, 4))]
        x = let(F, (o for o in fs) if cold else list(fs), name="x")
        node = x.flag
        # ... as one of several conditions (its parent is a logical operator), or as the SOLE condition (conditions root)
        qs = {1: an(entity(x, node == True)),
              2: an(entity(x, node)) if family == "shared_mapping_root" else an(entity(x, and_(node, x.n >= 0)))}
    elif family == "empty":
        # a variable whose domain is EMPTY after let()'s type filter (no candidate is an E), shared by two queries: every
        # evaluation - the first, a repeated one, one of the other query - yields nothing and stops (IterSched with N = 0)
        others = [F(i + 1, True) for i in range(3)]
        x = let(E, (o for o in others) if cold else list(others), name="x")
        q = an(entity(x, x.n >= 0))
        qs = {1: q, 2: an(set_of([x], x.n < 100))}
    elif family == "independent":
        objs2 = [E(i + 1) for i in range(n)]
        y = let(E, (o for o in objs2) if cold else list(objs2), name="y")
        qs = {1: an(entity(x, x.n >= 0)), 2: an(entity(y, y.n >= 0))}
    else:
        raise ValueError(family)
    return qs, x


def project(v, x):
    if isinstance(v, int):
        return "i" + str(v)
    if isinstance(v, (E, F)):
        return str(v.n)
    if isinstance(v, (T0, T1)):
        return str(v.p.n)
    try:
        return str(v[x].n)
    except Exception:
        return "?" + type(v).__name__


def handle(case):
    # what each evaluation returns when it runs alone on a fresh identical query over fresh identical domains
    fresh, fx = build(case["family"], case["n"], not case["warm"])
    alone = {}
    for i in (1, 2):
        f2, fx2 = build(case["family"], case["n"], not case["warm"])
        try:
            alone[i] = [project(v, fx2) for v in f2[i].evaluate()]
        except Exception as ex:
            alone[i] = [type(ex).__name__]
    qs, x = build(case["family"], case["n"], not case["warm"])
    if case["warm"]:
        for q in {id(q): q for q in qs.values()}.values():
            try:
                list(q.evaluate())
            except Exception as ex:          # an earlier complete evaluation of a query must not fail: reported as the observation
                return {"obs": ["warm-up evaluation raised " + type(ex).__name__] * len(case["h"]), "alone": {str(k): v for k, v in alone.items()}}
    its = {}
    obs = []
    for st in case["h"]:
        i, a = st["i"], st["a"]
        if a in ("start", "restart"):
            its[i] = iter(qs[i].evaluate())
            obs.append("-")
        elif a == "abandon":
            it = its.pop(i, None)
            if it is not None and hasattr(it, "close"):          # abandoning = dropping the iterator (closing it if it is a generator)
                it.close()
            obs.append("-")
        else:
            try:
                obs.append(project(next(its[i]), x))
            except StopIteration:
                obs.append("stop")
            except Exception as ex:
                obs.append(type(ex).__name__)
    return {"obs": obs, "alone": {str(k): v for k, v in alone.items()}}


if __name__ == "__main__":
    worker_main(handle)
