"""Replay of RuleTree.tla programs on real rule queries (C08)."""
import itertools
from dataclasses import dataclass

from harness.core import worker_main

from krrood.entity_query_language.entity import entity, let, inference
from krrood.entity_query_language.quantify_entity import an
from krrood.entity_query_language.conclusion import Add
from krrood.entity_query_language.rule import refinement, alternative, next_rule
from krrood.entity_query_language.predicate import Symbol
from krrood.entity_query_language.symbol_graph import SymbolGraph


@dataclass(eq=False)
class X:
    f0: bool
    f1: bool
    f2: bool
    f3: bool
    one: int = 1


@dataclass(eq=False)
class T0(Symbol):
    p: X


@dataclass(eq=False)
class T1(Symbol):
    p: X


@dataclass(eq=False)
class T2(Symbol):
    p: X


@dataclass(eq=False)
class T3(Symbol):
    p: X


@dataclass(eq=False)
class T4(Symbol):
    p: X


@dataclass(eq=False)
class Y:
    a: int
    b: int
    name: str = ""


@dataclass(eq=False)
class U0(Symbol):
    p: Y


@dataclass(eq=False)
class U1(Symbol):
    p: Y
    r: Y


@dataclass(eq=False)
class U2(Symbol):
    p: Y
    r: Y
    s: Y


T = [T0, T1, T2, T3, T4]
KIND = {"ref": refinement, "alt": alternative, "next": next_rule}


def multi(case):
    """Rule trees whose branches introduce further variables and conclude over different variable sets. No per-binding
    reference: the set of inferred instances must not depend on the order in which the domains are enumerated."""
    import random
    rnd = random.Random(case["world"])
    ys = [Y(rnd.randint(0, 2), rnd.randint(0, 2), f"y{i}") for i in range(5)]
    zs = [Y(rnd.randint(0, 2), rnd.randint(0, 2), f"z{i}") for i in range(4)]
    ws = [Y(rnd.randint(0, 2), rnd.randint(0, 2), f"w{i}") for i in range(3)]
    out = []
    for perm in case["perms"]:
        pr = random.Random(perm)
        d1, d2, d3 = list(ys), list(zs), list(ws)
        if perm:
            pr.shuffle(d1); pr.shuffle(d2); pr.shuffle(d3)
        y = let(Y, d1, name="y")
        z = let(Y, d2, name="z")
        w = let(Y, d3, name="w")
        t = case["template"]
        q = an(entity(v := let(U0, None), y.a == z.a))
        with q:
            if t == 0:      # refinement with an alternative inside that introduces a third variable
                Add(v, inference(U0)(p=y))
                with refinement(y.b > 0):
                    Add(v, inference(U1)(p=y, r=z))
                    with alternative(w.a == z.b, w.b >= 1):
                        Add(v, inference(U2)(p=y, r=z, s=w))
            elif t == 1:    # wide base conclusion, narrow refinement, alternative with a third variable
                Add(v, inference(U1)(p=y, r=z))
                with refinement(z.b == 0):
                    Add(v, inference(U0)(p=y))
                    with alternative(w.a == y.a):
                        Add(v, inference(U2)(p=y, r=z, s=w))
            elif t == 2:    # alternative of the base that introduces a variable; a refinement inside it
                Add(v, inference(U0)(p=y))
                with alternative(w.a == y.b):
                    Add(v, inference(U1)(p=y, r=w))
                    with refinement(w.b == 2):
                        Add(v, inference(U0)(p=w))
            else:           # a next_rule over another variable
                Add(v, inference(U1)(p=y, r=z))
                with next_rule(w.a == w.b):
                    Add(v, inference(U0)(p=w))
        res = set()
        try:
            for r in q.evaluate():
                if r is None:
                    continue
                res.add((type(r).__name__,) + tuple(getattr(r, f).name for f in ("p", "r", "s") if hasattr(r, f)))
            out.append(sorted(res))
        except Exception as ex:
            out.append(f"{type(ex).__name__}: {ex}")
    return {"multi": out}


@dataclass(eq=False)
class N0(Symbol):
    p: Y


@dataclass(eq=False)
class N1(Symbol):
    p: Y
    r: Y


@dataclass(eq=False)
class N2(Symbol):
    p: Y


def newvar(case):
    """RuleNewVar.tla: a refinement whose condition introduces a variable of its own; the inferred instances as a set of
    (type, x index, y index), in two orders of the y domain."""
    SymbolGraph().clear()
    out = []
    for rev in (False, True):
        xs = [Y(a, 0, f"x{i + 1}") for i, a in enumerate(case["xa"])]
        ys = [Y(a, 0, f"y{i + 1}") for i, a in enumerate(case["ya"])]
        x = let(Y, xs, name="x")
        y = let(Y, list(reversed(ys)) if rev else ys, name="y")
        q = an(entity(v := let(N0, None), x.b == 0))
        try:
            with q:
                Add(v, inference(N0)(p=x))
                with refinement(y.a == x.a):
                    Add(v, inference(N1)(p=x, r=y))
            res = []
            for r in q.evaluate():
                if r is None:
                    continue
                res.append([type(r).__name__.replace("N", "T"), int(r.p.name[1:]), int(r.r.name[1:]) if isinstance(r, N1) else 0])
            out.append(sorted(res))
        except Exception as ex:
            out.append(f"{type(ex).__name__}: {ex}")
        SymbolGraph().clear()
    # second template: refinement over x, an alternative inside it that introduces z and concludes over (x, z)
    out2 = []
    for rev in (False, True):
        xs = [Y(a, 2 - a, f"x{i + 1}") for i, a in enumerate(case["xa"])]
        zs = [Y(a, 0, f"y{i + 1}") for i, a in enumerate(case["ya"])]
        x = let(Y, list(reversed(xs)) if rev else xs, name="x")
        z = let(Y, zs, name="z")
        q = an(entity(v := let(N0, None), x.name != ""))
        try:
            with q:
                Add(v, inference(N0)(p=x))
                with refinement(x.a == 1):
                    Add(v, inference(N2)(p=x))
                    with alternative(z.a == x.b):
                        Add(v, inference(N1)(p=x, r=z))
            res = []
            for r in q.evaluate():
                if r is None:
                    continue
                kind = {"N0": "T0", "N2": "T1", "N1": "T2"}[type(r).__name__]
                res.append([kind, int(r.p.name[1:]), int(r.r.name[1:]) if isinstance(r, N1) else 0])
            out2.append(sorted(res))
        except Exception as ex:
            out2.append(f"{type(ex).__name__}: {ex}")
        SymbolGraph().clear()
    # third template: the same rule, its base condition joins a further variable u with TWO matches per x - two base bindings
    # share the values of every conclusion variable; the inferred instances (as a set) are the same
    out3 = []
    for rev in (False, True):
        xs = [Y(a, 2 - a, f"x{i + 1}") for i, a in enumerate(case["xa"])]
        zs = [Y(a, 0, f"y{i + 1}") for i, a in enumerate(case["ya"])]
        us = [Y(0, 0, "u1"), Y(0, 1, "u2")]
        x = let(Y, list(reversed(xs)) if rev else xs, name="x")
        z = let(Y, zs, name="z")
        u = let(Y, us, name="u")
        q = an(entity(v := let(N0, None), x.name != "", u.a == 0))
        try:
            with q:
                Add(v, inference(N0)(p=x))
                with refinement(x.a == 1):
                    Add(v, inference(N2)(p=x))
                    with alternative(z.a == x.b):
                        Add(v, inference(N1)(p=x, r=z))
            res = []
            for r in q.evaluate():
                if r is None:
                    continue
                kind = {"N0": "T0", "N2": "T1", "N1": "T2"}[type(r).__name__]
                res.append([kind, int(r.p.name[1:]), int(r.r.name[1:]) if isinstance(r, N1) else 0])
            out3.append(sorted(res))
        except Exception as ex:
            out3.append(f"{type(ex).__name__}: {ex}")
        SymbolGraph().clear()
    return {"newvar": out, "refalt": out2, "refalt_dup": out3}


def handle(case):
    if "xa" in case:
        return newvar(case)
    if "template" in case:
        return multi(case)
    SymbolGraph().clear()        # inferred instances of earlier cases must not be candidates for `let(T0, None)`
    k = case["k"]
    # one element per truth vector of the k branch conditions and of the base condition (x.one == 1), base bit last
    elems = [X(*[bool(v[i]) if i < k else False for i in range(4)], one=v[k]) for v in itertools.product((0, 1), repeat=k + 1)]
    order = case.get("order", 0)
    if order == 1:
        elems.reverse()
    x = let(X, elems, name="x")
    q = an(entity(v := let(T0, None), x.one == 1))

    def cond(label):
        return getattr(x, f"f{label}") == True

    def emit(block):
        for kind, label, sub in block:
            with KIND[kind](cond(label)):
                Add(v, inference(T[label + 1])(p=x))
                emit(sub)

    out = {}
    try:
        if case.get("grow"):
            # the rule is evaluated, THEN extended by its branches, then evaluated again - twice
            with q:
                Add(v, inference(T[0])(p=x))
            if case["grow"] != "no_evaluation":
                list(q.evaluate())
            with q:
                emit(case["prog"])
            list(q.evaluate())
        elif case.get("base_last"):
            # the rule written in two steps: first the branches, later (a second `with query:`) the base conclusion
            with q:
                emit(case["prog"])
            with q:
                Add(v, inference(T[0])(p=x))
        else:
            with q:
                Add(v, inference(T[0])(p=x))
                emit(case["prog"])
        res = {}
        nones = 0
        judged = q.evaluate()
        if case.get("held"):
            # two iterables obtained back to back; the one obtained FIRST is consumed first, the second one is judged:
            # obtaining an iterable starts nothing, every evaluation begins with a clean per-evaluation state
            first, judged = judged, q.evaluate()
            list(first)
        for r in judged:
            if r is None:          # a true output without a visible conclusion: nothing was inferred for it
                nones += 1
                continue
            key = "".join("1" if getattr(r.p, f"f{i}") else "0" for i in range(k)) + str(r.p.one)
            res.setdefault(key, []).append(T.index(type(r)))
        out["res"] = {key: sorted(v) for key, v in res.items()}
        # every conclusion is constructed from the values of the binding that triggered it
        out["none_results"] = nones
    except Exception as ex:
        out["error"] = f"{type(ex).__name__}: {ex}"
    return out


if __name__ == "__main__":
    worker_main(handle)
