"""Replay of EQLCore.tla cases on the real query engine (C01, C02).

Case: {"cond": nested list, "cases": [{"dom": {"x": [...], "y": [...]}, "sel": [...], ...}], "variant": int}
Result: {"rows": [ [[names...]...] per case ], "errors": [...], "the": [...]}
"""
from dataclasses import dataclass, field
from typing import List, Optional

from harness.core import worker_main

from krrood.entity_query_language.entity import entity, set_of, let, and_, or_, not_, in_, contains, exists, for_all, flatten
from krrood.entity_query_language.quantify_entity import an, the
from krrood.entity_query_language.result_quantification_constraint import Exactly


@dataclass(eq=False)
class O:
    name: str
    a: int
    b: int
    items: List["O"] = field(default_factory=list)
    ref: Optional["O"] = None
    s: frozenset = frozenset()
    w: Optional[int] = None
    pos: tuple = ()          # the stored counterpart of the computed `pair`: one tuple object per world edit

    def __repr__(self):
        return self.name

    @property
    def pair(self):
        return (self.a, self.b)

    def twice_a(self):
        return 2 * self.a

    def plus(self, k):
        return self.a + k


# truth value of the world's objects, switchable per case: a domain element may be a falsy object (a class with __bool__ /
# __len__, e.g. an empty container-like value); what a query returns does not depend on it
FALSY = [False]
O.__bool__ = lambda self: not FALSY[0]


def make_world():
    w = {"o1": O("o1", 0, 0), "o2": O("o2", 0, 1), "o3": O("o3", 1, 0), "o4": O("o4", 1, 1)}
    items = {"o1": [], "o2": ["o1"], "o3": ["o1", "o4"], "o4": ["o4", "o2"]}
    ref = {"o1": "o2", "o2": "o2", "o3": "o4", "o4": "o1"}
    sets = {"o1": frozenset(), "o2": frozenset({1}), "o3": frozenset({2}), "o4": frozenset({1, 2})}
    for n, o in w.items():
        o.items = [w[i] for i in items[n]]
        o.ref = w[ref[n]]
        o.s = sets[n]
        o.w = {"o1": 0, "o2": 1, "o3": None, "o4": 1}[n]
        o.pos = (o.a, o.b)
    return w


def edit_world(on):
    """The in-place edit of EQLCore's second world (o1.a := 1, o4.b := 0), and its undo."""
    WORLD["o1"].a = 1 if on else 0
    WORLD["o4"].b = 0 if on else 1
    for o in WORLD.values():
        o.pos = (o.a, o.b)


WORLD = make_world()


def term(t, V):
    k = t[0]
    if k == "lit":
        return t[1]
    if k == "tlit":
        return tuple(t[1])
    if k == "var":
        return V[t[1]]
    if k == "attr":
        return getattr(V[t[1]], t[2])
    if k == "attr2":
        return getattr(getattr(V[t[1]], t[2]), t[3])
    if k == "index":
        return getattr(V[t[1]], t[2])[t[3]]
    if k == "call":
        return getattr(V[t[1]], t[2])()
    if k == "call1":
        return getattr(V[t[1]], t[2])(t[3])
    raise ValueError(t)


def build(e, V, variant):
    k = e[0]
    if k == "cmp":
        l, r = term(e[2], V), term(e[3], V)
        op = e[1]
        return {"eq": lambda: l == r, "ne": lambda: l != r, "lt": lambda: l < r, "ge": lambda: l >= r}[op]()
    if k == "truth":
        return term(e[1], V)          # the attribute expression itself is the condition
    if k == "scmp":
        l, r = term(e[2], V), term(e[3], V)
        return (l < r) if e[1] == "lt" else (l >= r)
    if k == "in":
        item, coll = term(e[1], V), term(e[2], V)
        return in_(item, coll) if variant % 2 == 0 else contains(coll, item)
    if k == "and":
        return and_(build(e[1], V, variant), build(e[2], V, variant))
    if k == "or":
        return or_(build(e[1], V, variant), build(e[2], V, variant))
    if k == "not":
        return not_(build(e[1], V, variant))
    if k == "exists":
        # transparent at set level: its variables are the query's variables
        return exists(V[e[1]], build(e[2], V, variant))
    if k == "forall":
        # every universal quantifier binds its own variable (alpha-renaming): a fresh let over the same domain
        W = dict(V)
        W[e[1]] = V["__fresh__"](e[1])
        return for_all(W[e[1]], build(e[2], W, variant))
    raise ValueError(e)


def make_vars(dom):
    V = {v: let(O, [WORLD[n] for n in dom[v]], name=v) for v in ("x", "y")}
    V["__fresh__"] = lambda v: let(O, [WORLD[n] for n in dom[v]], name=v + "_q")
    if dom.get("__terms__"):
        z = let(O, list(WORLD.values()), name="z")
        V["s"] = an(entity(z, z.a == 0))          # EQLTerms.tla: a nested query used as a variable
    if dom.get("__flat__"):
        V["f"] = flatten(V["y"].items)        # EQLFlat.tla: a derived variable over the elements of y.items
    return V


def make_query(cond, dom, sel, variant, quant="an", constraint=None, V=None):
    V = V or make_vars(dom)
    c = build(cond, V, variant)
    S = {s: (V[s] if s in V else getattr(V["x"], s.split(".")[1])) for s in sel}     # "x.a" = a selected attribute expression
    V["__sel__"] = S
    if len(sel) == 1 and variant % 3 != 2:
        d = entity(S[sel[0]], c)
    else:
        d = set_of([S[s] for s in sel], c)
    if quant == "the":
        return the(d), V, d
    return an(d, quantification=constraint), V, d


def rows_of(results, V, sel, d):
    rows = []
    for r in results:
        if type(d).__name__ == "Entity":
            rows.append([r.name if isinstance(r, O) else repr(r)])
        else:
            row = []
            for s in sel:
                v = r[V["__sel__"][s]]
                row.append(v.name if isinstance(v, O) else str(v))
            rows.append(row)
    return rows


def handle(case):
    variant = case.get("variant", 0)
    out = {"rows": [], "errors": [], "extra": [], "rows2": []}
    FALSY[0] = bool(case.get("falsy"))
    for c in case["cases"]:
        q = None
        try:
            q, V, d = make_query(case["cond"], c["dom"], c["sel"], variant)
            out["rows"].append(rows_of(list(q.evaluate()), V, c["sel"], d))
            out["errors"].append(None)
        except Exception as ex:
            out["rows"].append([])
            out["errors"].append(f"{type(ex).__name__}: {ex}")
        # the same query object, evaluated again after an in-place edit of attribute values
        r2 = None
        if case.get("reeval") and q is not None and out["errors"][-1] is None:
            edit_world(True)
            try:
                r2 = rows_of(list(q.evaluate()), V, c["sel"], d)
            except Exception as ex:
                r2 = f"{type(ex).__name__}: {ex}"
            finally:
                edit_world(False)
        out["rows2"].append(r2)
        ext = None
        if case.get("c02") and "n" in c:
            # the(...) and an(..., Exactly(n)) see the true number of solutions
            ext = {}
            try:
                q, V, d = make_query(case["cond"], c["dom"], c["sel"], variant, quant="the")
                r = q.evaluate()
                ext["the"] = rows_of([r], V, c["sel"], d)[0]
            except Exception as ex:
                ext["the"] = type(ex).__name__
            try:
                q, V, d = make_query(case["cond"], c["dom"], c["sel"], variant, constraint=Exactly(c["n"]))
                ext["exactly"] = len(list(q.evaluate()))
            except Exception as ex:
                ext["exactly"] = type(ex).__name__
            # the same variables used by several queries one after the other: the(...) (possibly abandoned by its
            # exception), then an(...), then the(...) again - each must see the true number of solutions
            SV = make_vars(c["dom"])
            seq = []
            for quant in ("the", "an", "the"):
                try:
                    q, _, d = make_query(case["cond"], c["dom"], c["sel"], variant, quant=quant, V=SV)
                    r = q.evaluate()
                    seq.append(rows_of([r], SV, c["sel"], d)[0] if quant == "the" else len(list(r)))
                except Exception as ex:
                    seq.append(type(ex).__name__)
            ext["shared_vars_sequence"] = seq
        out["extra"].append(ext)
    FALSY[0] = False
    return out


if __name__ == "__main__":
    worker_main(handle)
