"""Replay of JsonSer.tla: value shapes through real JSON text (C18) and tag classes through from_json (C19)."""
import contextlib
import datetime
import json
import random
import uuid

from harness.core import worker_main

from krrood.adapters.json_serializer import (from_json, to_json, JSON_TYPE_NAME, JSONSerializationError, SubclassJSONSerializer)
from harness.models import jsonmodel
from harness.models.jsonmodel import A, B, C
from harness.models import jsonmodel2

INTS = [0, -1, 1, 2 ** 31, -(2 ** 63), 2 ** 63, 2 ** 100, 10 ** 30]
FLOATS = [0.0, -0.0, 1e308, -1e308, 5e-324, 2.0 ** -1074, 0.1, 1.0, float("inf"), float("-inf"), 3.141592653589793, 1e-7, 123456789.123456789]
STRS = ["NaN", "Infinity", "-Infinity", "nan", "null", "true", "None", "", "a", "é", "\u0000", "\U0001F600", "日本語", "__json_type__", "json.dumps", "a.b", "{\"x\": 1}", "\\", "\"", "\n\t", " ", "퟿", " "]
CLS = {"A": A, "B": B, "C": C, "A2": jsonmodel2.A, "It": jsonmodel.It, "D1": jsonmodel.D1, "MD": jsonmodel.MD}


def concretise(shape, rnd):
    k = shape[0]
    if k == "none":
        return None
    if k == "true":
        return True
    if k == "false":
        return False
    if k == "int":
        return rnd.choice(INTS) if rnd.random() < 0.7 else rnd.randint(-10 ** 18, 10 ** 18)
    if k == "float":
        return rnd.choice(FLOATS) if rnd.random() < 0.7 else rnd.uniform(-1e6, 1e6)
    if k == "str":
        return rnd.choice(STRS) if rnd.random() < 0.7 else "".join(chr(rnd.choice([rnd.randint(32, 126), rnd.randint(0xA0, 0x2FFF), rnd.randint(0x10000, 0x1FFFF)])) for _ in range(rnd.randint(1, 6)))
    if k == "uuid":
        return uuid.UUID(int=rnd.getrandbits(128))
    if k == "date":
        return datetime.date(rnd.randint(1, 9999), rnd.randint(1, 12), rnd.randint(1, 28))
    if k == "datetime":
        return datetime.datetime(rnd.randint(1, 9999), rnd.randint(1, 12), rnd.randint(1, 28), rnd.randint(0, 23), rnd.randint(0, 59), rnd.randint(0, 59), rnd.randint(0, 999999))
    if k == "list":
        return [concretise(s, rnd) for s in shape[1]]
    if k == "dup":
        x = concretise(shape[1], rnd)
        return [x, x] if rnd.random() < 0.5 else [x, [], x]
    if k == "obj":
        return CLS[shape[1]](concretise(shape[2], rnd), concretise(shape[3], rnd))
    raise ValueError(shape)


def same(a, b, path="$"):
    """Deep equality with exact classes; returns a description of the first difference or None."""
    if type(a) is not type(b):
        return f"{path}: type {type(b).__name__} instead of {type(a).__name__}"
    if isinstance(a, list):
        if len(a) != len(b):
            return f"{path}: length {len(b)} instead of {len(a)}"
        for i, (x, y) in enumerate(zip(a, b)):
            d = same(x, y, f"{path}[{i}]")
            if d:
                return d
        return None
    if isinstance(a, (A, jsonmodel2.A)):
        return same(a.x, b.x, path + ".x") or same(a.y, b.y, path + ".y")
    if isinstance(a, float):
        import math
        if a != b or math.copysign(1, a) != math.copysign(1, b):
            return f"{path}: {b!r} instead of {a!r}"
        return None
    if a != b:
        return f"{path}: {b!r} instead of {a!r}"
    return None


def tags_ok(v, j, path="$"):
    """Every object in the serialised form carries its fully qualified type tag."""
    if isinstance(v, list):
        if not isinstance(j, list) or len(j) != len(v):
            return f"{path}: a list is serialised as {type(j).__name__}"
        for i, (x, y) in enumerate(zip(v, j)):
            d = tags_ok(x, y, f"{path}[{i}]")
            if d:
                return d
        return None
    if isinstance(v, (A, jsonmodel2.A, uuid.UUID, datetime.date)):
        want = type(v).__module__ + "." + type(v).__name__
        if not isinstance(j, dict) or j.get(JSON_TYPE_NAME) != want:
            return f"{path}: type tag {j.get(JSON_TYPE_NAME) if isinstance(j, dict) else j!r} instead of {want}"
        if isinstance(v, (A, jsonmodel2.A)):
            return tags_ok(v.x, j.get("x"), path + ".x") or tags_ok(v.y, j.get("y"), path + ".y")
    return None


TAGS = {
    "missing": ["<absent>"], "null": [None], "empty_string": [""], "zero": [0, 0.0], "false": [False], "empty_list": [[]], "empty_dict": [{}],
    "true": [True], "number": [5, -1, 2.5, 1e300], "list": [["a.b"], [1], ["harness.models.jsonmodel.A"]], "dict": [{"x": 1}, {"__json_type__": "a.b"}],
    "no_dot": ["nodot", "A", "dumps"], "leading_dot": [".x", ".A", "..A"], "trailing_dot": ["x.", "nomodule.", "nomodule.sub."],
    "double_dot": ["a..b", "harness..jsonmodel.A", "nomodule..A"], "unknown_module": ["nomodule.X", "harness.models.nothing.A", "krrood.nope.X", "nomodule.UUID", "no_such_package.ids.A", "\u00e9.\u00fc", "1.2", "a.b\u0000c", " json.dumps"],
    "broken_module": ["harness.models.broken_pkg.X", "harness.models.broken_pkg.sub.X"],
    "module_without_attribute": ["json.Nope", "harness.models.jsonmodel.Nope", "json.", "json.UUID", "json.A", "harness.models.jsonmodel2.C", "json.\u00e9", "json.dumps ", "json.1"],
    "attr_function": ["json.dumps", "harness.models.jsonmodel.some_function", "os.getcwd"],
    "attr_module": ["os.path", "harness.models", "json.decoder"],
    "attr_typevar": ["typing_extensions.T", "typing.AnyStr", "typing.List"],
    "attr_constant": ["harness.models.jsonmodel.SOME_TEXT", "harness.models.jsonmodel.SOME_TUPLE", "string.ascii_letters", "sys.maxsize", "math.pi", "builtins.None", "os.environ", "typing.Any"],
    "attr_abstract_base": ["krrood.adapters.json_serializer.SubclassJSONSerializer"],
    "attr_plain_class": ["harness.models.jsonmodel.Plain", "decimal.Decimal", "builtins.int", "enum.Enum", "abc.ABC", "builtins.object", "builtins.Exception",
                         "krrood.adapters.json_serializer.JSONSerializationError", "collections.abc.Mapping"],
    "attr_subclass_of_registered": ["harness.models.jsonmodel.MyUUID", "harness.models.jsonmodel.Stamp"],
    "attr_serializable_class": ["harness.models.jsonmodel.A", "harness.models.jsonmodel.C"],
    "attr_registered_class": ["uuid.UUID", "datetime.date"],
}


@contextlib.contextmanager
def _scope():
    yield


ENGINE = []


def _mutate(x):
    """An in-memory change of a loaded value that is never written back."""
    if isinstance(x, list):
        x.append("changed in memory")
    elif isinstance(x, dict):
        x["changed in memory"] = 1
    elif hasattr(x, "__dict__") and x.__dict__:
        k = next(iter(x.__dict__))
        try:
            setattr(x, k, "changed in memory")
        except Exception:
            pass


def engine_round_trips(v):
    """The same value through the (de)serialiser that krrood's create_engine installs for JSON columns: stored, loaded,
    the loaded copy modified in memory, loaded again - every load yields the stored value."""
    if not ENGINE:
        from krrood.ormatic.utils import create_engine
        ENGINE.append(create_engine("sqlite://"))
    ser, de = ENGINE[0].dialect._json_serializer, ENGINE[0].dialect._json_deserializer
    text = ser(v)
    first = de(text)
    d = same(v, first)
    if d:
        return "first load: " + str(d)
    _mutate(first)
    d = same(v, de(text))
    return ("a load after a loaded copy was modified in memory: " + str(d)) if d else None


def handle(case):
    if case["part"] == "value":
        rnd = random.Random(case["seed"])
        out = []
        for rep in range(case.get("reps", 2)):
            v = concretise(case["v"], rnd)
            o = {}
            try:
                j = to_json(v)
                text = json.dumps(j)
                back = from_json(json.loads(text))
                o["diff"] = same(v, back)
                o["tag"] = tags_ok(v, json.loads(text))
                o["diff"] = o["diff"] or engine_round_trips(v)
                if o["diff"] or o["tag"]:
                    o["text"] = text[:400]
            except Exception as ex:
                o["error"] = f"{type(ex).__name__}: {ex}"
                o["value"] = repr(v)[:300]
            out.append(o)
        return {"value": out}
    # tag classes; the process has already deserialised valid documents of these classes (a realistic history)
    for good in ("harness.models.jsonmodel.A", "harness.models.jsonmodel.C", "uuid.UUID", "datetime.date"):
        from_json({JSON_TYPE_NAME: good, "x": 1, "y": 2, "value": "12345678-1234-5678-1234-567812345678", "iso": "2020-01-02"})
    res = []
    for t, ctxt in [(t, c) for t in TAGS[case["tag"]] for c in ("plain", "contextmanager", "exitstack")]:
        doc = {"x": 1, "y": 2, "value": "12345678-1234-5678-1234-567812345678", "iso": "2020-01-02"}
        if t != "<absent>":
            doc[JSON_TYPE_NAME] = t
        doc = json.loads(json.dumps(doc))      # the tag really went through JSON text
        try:
            # the error must travel like any exception: out of a generator-based context manager, out of an ExitStack
            if ctxt == "contextmanager":
                with _scope():
                    r = from_json(doc)
            elif ctxt == "exitstack":
                with contextlib.ExitStack() as st:
                    st.enter_context(_scope())
                    r = from_json(doc)
            else:
                r = from_json(doc)
            res.append({"tag": t, "context": ctxt, "outcome": "instance", "type": type(r).__module__ + "." + type(r).__name__})
        except JSONSerializationError as ex:
            res.append({"tag": t, "context": ctxt, "outcome": type(ex).__name__, "message": str(ex)[:200]})
        except BaseException as ex:
            res.append({"tag": t, "context": ctxt, "outcome": "ESCAPED:" + type(ex).__name__, "message": str(ex)[:200]})
    return {"tags": res}


if __name__ == "__main__":
    worker_main(handle)
