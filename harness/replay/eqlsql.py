"""C07: the same EQL query evaluated in memory and translated to SQL over the persisted objects (EQLCore.tla, family sql)."""
from harness.core import worker_main
from harness.models import vorm
from harness.models.vmodel import VA, VC, VM, VCU

from sqlalchemy.orm import Session
from krrood.ormatic.utils import create_engine
from krrood.ormatic.dao import to_dao, ToDAOState
from krrood.ormatic.eql_interface import eql_to_sql, EQLTranslationError
from krrood.entity_query_language.entity import entity, let, and_, or_, not_, in_, contains
from krrood.entity_query_language.quantify_entity import an, the

STATE = {}
A = {"o1": (0, 0), "o2": (0, 1), "o3": (1, 0), "o4": (1, 1)}
W = {"o1": 0, "o2": 1, "o3": None, "o4": 1}
REF = {"o1": "o2", "o2": "o2", "o3": "o4", "o4": "o1"}


def setup(args):
    gen = vorm.interface()
    LABEL = {"o1": "C1", "o2": "C", "o3": "1", "o4": ""}      # proper substrings of "C1" and the empty string
    objs = {n: VA(name=n, a=a, b=b, w=W[n], label=LABEL[n]) for n, (a, b) in A.items()}
    for n, o in objs.items():
        o.one = objs[REF[n]]                                   # the reference as a self-referential relationship
        o.other = VC(tag=A[REF[n]][0], tag2=A[REF[n]][1])      # ... and as a relationship to another table carrying the same values
    # every VC has a back reference and an (alternatively mapped) VM with a reference, so that chains never hit None
    vcs = {}
    for n, o in objs.items():
        o.other.back = o
        o.other.m = VM(label="m" + n, ref=objs[REF[REF[n]]])
        vcs["c" + n[1]] = o.other
    order = ["o1", "o2", "o3", "o4"]
    for i, n in enumerate(order):
        q = VC(tag=i % 2, tag2=10 + i, back=objs[order[(i + 1) % 4]], m=VM(label="mq" + n, ref=objs[order[(i + 2) % 4]]))
        vcs["q" + n[1]] = q
    engine = create_engine("sqlite:///:memory:")
    gen.Base.metadata.create_all(engine)
    with Session(engine) as s:
        state = ToDAOState()          # one conversion state: every distinct object becomes exactly one row
        for o in list(objs.values()) + list(vcs.values()):
            s.add(to_dao(o, state=state))
        s.commit()
    STATE.update(objs=objs, engine=engine, vcs=vcs)
    # a second database for the string conditions: labels with LIKE wildcards, case variants, substrings of each other
    slabels = ["C1", "C", "1", "", "c1", "C_", "%", "xC1", "c", "_1"]
    # ... and integer columns holding other values than 0 / 1, an Optional integer holding None / 0 / 2
    sobjs = {f"s{i + 1}": VA(name=f"s{i + 1}", label=l, a=i % 4, b=(i // 2) % 3, w=[None, 0, 2, 1, None][i % 5])
             for i, l in enumerate(slabels)}
    engine2 = create_engine("sqlite:///:memory:")
    gen.Base.metadata.create_all(engine2)
    with Session(engine2) as s:
        state = ToDAOState()
        for o in sobjs.values():
            s.add(to_dao(o, state=state))
        s.commit()
    STATE.update(sobjs=sobjs, engine2=engine2)
    return None


def term(t, V):
    k = t[0]
    if k == "lit":
        return t[1]
    if k == "setlit":
        return list(t[1])
    if k == "var":
        return V[t[1]]
    if k == "attr":
        return getattr(V[t[1]], "one" if t[2] == "ref" else t[2])
    if k == "attr2":
        if V.get("__self__"):
            return getattr(getattr(V[t[1]], "one"), t[3])
        return getattr(getattr(V[t[1]], "other"), {"a": "tag", "b": "tag2"}[t[3]])
    raise ValueError(t)


def build(e, V):
    k = e[0]
    if k == "cmp":
        l, r = term(e[2], V), term(e[3], V)
        return {"eq": lambda: l == r, "ne": lambda: l != r, "lt": lambda: l < r, "ge": lambda: l >= r}[e[1]]()
    if k == "in":
        return in_(term(e[1], V), term(e[2], V))
    if k == "and":
        return and_(build(e[1], V), build(e[2], V))
    if k == "or":
        return or_(build(e[1], V), build(e[2], V))
    if k == "not":
        return not_(build(e[1], V))
    raise ValueError(e)


def query(cond, dom, quant, self_ref=False):
    V = {v: let(VA, dom(v), name=v) for v in ("x", "y")}
    V["__self__"] = self_ref
    d = entity(V["x"], build(cond, V))
    return (the if quant == "the" else an)(d)


CHAIN_ATOMS = {"back.other.tag": lambda c: c.back.other.tag, "m.ref.other.tag": lambda c: c.m.ref.other.tag,
               "back.a": lambda c: c.back.a, "m.ref.a": lambda c: c.m.ref.a, "tag": lambda c: c.tag,
               "back.other.tag2": lambda c: c.back.other.tag2, "m.ref.b": lambda c: c.m.ref.b}


def chains(case):
    """Three-segment chains that reach one class through two different relationships and then follow a relationship of the
    same name. Oracle: the in-memory evaluation of the same query over all persisted VC objects."""
    vcs = STATE["vcs"]
    names = {id(o): n for n, o in vcs.items()}

    def q(dom):
        c = let(VC, dom, name="c")
        parts = [(CHAIN_ATOMS[p](c) == k) for p, k in case["atoms"]]
        cond = (and_ if case["op"] == "and" else or_)(*parts) if len(parts) > 1 else parts[0]
        return an(entity(c, cond))
    out = {}
    try:
        out["memory"] = sorted(names[id(r)] for r in q(list(vcs.values())).evaluate())
    except Exception as ex:
        out["memory_error"] = type(ex).__name__
    with Session(STATE["engine"]) as s:
        try:
            t = eql_to_sql(q([]), s)
            res = t.evaluate()
            out["sql"] = sorted(next(n for n, o in vcs.items() if o.tag == r.tag and o.tag2 == r.tag2 and
                                     (o.m.label if o.m else None) == (r.m.label if r.m else None)) for r in res)
            out["sql_text"] = str(t.sql_query)[-500:]
        except EQLTranslationError as ex:
            out["rejected"] = type(ex).__name__
        except Exception as ex:
            out["sql_error"] = f"{type(ex).__name__}: {str(ex)[:160]}"
    return {"chains": out}


STR_ATOMS = {
    "in1": lambda x: in_(x.label, ["C1"]), "in1t": lambda x: in_(x.label, ("C1",)), "in2": lambda x: in_(x.label, ["C1", "C"]),
    "inC": lambda x: in_(x.label, ["C"]), "inE": lambda x: in_(x.label, [""]), "eqC": lambda x: x.label == "C",
    "neC1": lambda x: x.label != "C1", "c1": lambda x: contains(["C1"], x.label), "a0": lambda x: x.a == 0, "b1": lambda x: x.b >= 1,
    # a bare NON-boolean attribute as a condition (holds iff the value is truthy: 2 and 3 as much as 1), and the tests
    # "the Optional attribute is set / is not set"
    "bareA": lambda x: x.a, "bareB": lambda x: x.b, "wSet": lambda x: x.w != None, "wNone": lambda x: x.w == None,
    # a TEXT as the container: Python's substring test (exact, case sensitive; "_" and "%" are ordinary characters)
    "subT": lambda x: in_(x.label, "aC1b"), "conT": lambda x: contains("aC1b", x.label), "subU": lambda x: in_(x.label, "x_1%"),
}


def strings(case):
    """Membership of a string attribute in literal collections (also of one element) and in a text. Oracle: in-memory evaluation
    (over the second database, whose labels contain LIKE wildcards and case variants)."""
    objs = STATE["sobjs"]

    def q(dom):
        x = let(VA, dom, name="x")
        parts = [STR_ATOMS[a](x) for a in case["satoms"]]
        cond = (and_ if case["op"] == "and" else or_)(*parts) if len(parts) > 1 else parts[0]
        return an(entity(x, cond))
    out = {}
    try:
        out["memory"] = sorted(r.name for r in q(list(objs.values())).evaluate())
    except Exception as ex:
        out["memory_error"] = type(ex).__name__
    with Session(STATE["engine2"]) as s:
        try:
            t = eql_to_sql(q([]), s)
            out["sql"] = sorted(r.name for r in t.evaluate())
            out["sql_text"] = str(t.sql_query)[-300:]
        except EQLTranslationError as ex:
            out["rejected"] = type(ex).__name__
        except Exception as ex:
            out["sql_error"] = f"{type(ex).__name__}: {str(ex)[:160]}"
    return {"chains": out}


JOINS = {"one_back": lambda a, c: a.one == c.back, "back_is_a": lambda a, c: c.back == a, "other_is_c": lambda a, c: a.other == c,
         "one_a_back_a": lambda a, c: a.one.a == c.back.a, "back_ref": lambda c, m: c.back == m.ref}
JFILTERS = {"none": None, "a.a=0": lambda a, c: a.a == 0, "a.b=1": lambda a, c: a.b == 1, "c.tag=0": lambda a, c: c.tag == 0,
            "c.tag=1": lambda a, c: c.tag == 1}


def joins(case):
    """Two variables of different classes joined through relationship attributes (SqlJoin.tla): the selected variable is
    reported once per binding. Observed: the bag of names from memory and from SQL, and the outcome of the(...)."""
    objs, vcs = STATE["objs"], STATE["vcs"]
    vms = {("m" if n[0] == "c" else "n") + n[1]: c.m for n, c in vcs.items()}
    if case["join"] == "back_ref":
        LT, RT, L, R = VC, VM, vcs, vms
    else:
        LT, RT, L, R = VA, VC, objs, vcs
    pool = L if case["sel"] == "l" else R
    pname = {id(o): n for n, o in pool.items()}

    def q(doml, domr, quant):
        l = let(LT, doml, name="l")
        r = let(RT, domr, name="r")
        cond = JOINS[case["join"]](l, r)
        f = JFILTERS[case["filter"]]
        if f is not None:
            cond = and_(cond, f(l, r) if case["join"] != "back_ref" else f(None, l))
        return (the if quant == "the" else an)(entity(l if case["sel"] == "l" else r, cond))

    def sql_name(r):
        if hasattr(r, "name"):
            return r.name
        if hasattr(r, "label") and not hasattr(r, "tag"):
            return next(n for n, o in vms.items() if o.label == r.label)
        return next(n for n, o in vcs.items() if o.tag == r.tag and o.tag2 == r.tag2 and
                    (o.m.label if o.m else None) == (r.m.label if r.m else None))
    out = {}
    for quant in ("an", "the"):
        key = "" if quant == "an" else "the_"
        try:
            res = q(list(L.values()), list(R.values()), quant).evaluate()
            res = [res] if quant == "the" else list(res)
            out[key + "memory"] = sorted(pname[id(x)] for x in res)
        except Exception as ex:
            out[key + "memory_error"] = type(ex).__name__
        with Session(STATE["engine"]) as s:
            try:
                t = eql_to_sql(q([], [], quant), s)
                res = t.evaluate()
                res = res if isinstance(res, list) else [res]
                out[key + "sql"] = sorted(sql_name(x) for x in res)
                out["sql_text"] = str(t.sql_query)[-400:]
            except EQLTranslationError as ex:
                out[key + "rejected"] = type(ex).__name__
            except Exception as ex:
                out[key + "sql_error"] = f"{type(ex).__name__}: {str(ex)[:160]}"
    return {"joins": out}


def unmapped(case):
    """A variable typed with a class that is NOT mapped (VCU, a subclass of the mapped VC that ORMatic was not given): the
    translation must be rejected - or select what in-memory evaluation over the persisted objects selects (nothing: none of them
    is a VCU)."""
    vcs = STATE["vcs"]

    def q(dom):
        v = let(VCU, dom, name="v")
        return an(entity(v, v.tag == case["unmapped_tag"]))
    out = {}
    try:
        out["memory"] = sorted(n for n, o in vcs.items() if any(o is r for r in q(list(vcs.values())).evaluate()))
    except Exception as ex:
        out["memory_error"] = type(ex).__name__
    with Session(STATE["engine"]) as s:
        try:
            t = eql_to_sql(q([]), s)
            out["sql"] = sorted(str(getattr(r, "tag", "?")) + "/" + str(getattr(r, "tag2", "?")) for r in t.evaluate())
        except EQLTranslationError as ex:
            out["rejected"] = type(ex).__name__
        except Exception as ex:
            out["sql_error"] = f"{type(ex).__name__}: {str(ex)[:160]}"
    return {"chains": out}


def handle(case):
    if "unmapped_tag" in case:
        return unmapped(case)
    if "join" in case:
        return joins(case)
    if "satoms" in case:
        return strings(case)
    if "atoms" in case:
        return chains(case)
    objs = STATE["objs"]
    mem_dom = lambda v: [objs[n] for n in ("o1", "o2", "o3", "o4")]
    out = {}
    for quant in ("an", "the"):
        o = {}
        try:
            r = query(case["cond"], mem_dom, quant, case.get("self_ref", False)).evaluate()
            o["memory"] = sorted({x.name for x in r}) if quant == "an" else [r.name]
        except Exception as ex:
            o["memory_error"] = type(ex).__name__
        with Session(STATE["engine"]) as s:
            try:
                t = eql_to_sql(query(case["cond"], lambda v: [], quant, case.get("self_ref", False)), s)
                o["sql_text"] = str(t.sql_query)[:400]
                r = t.evaluate()
                o["sql"] = sorted({x.name for x in r}) if quant == "an" else [r.name]
            except EQLTranslationError as ex:
                o["rejected"] = type(ex).__name__
            except Exception as ex:
                o["sql_error"] = f"{type(ex).__name__}: {str(ex)[:160]}"
        out[quant] = o
    return out


if __name__ == "__main__":
    worker_main(lambda c, s: handle(c), setup)
