"""Replay of SymbolGraph.tla histories on the real registry (C13, C14, C20) + H1 event recording.

Case: {"mode": "c13"|"c14"|"c20", "h": [step records from TLC], "loops": int}
Result: {"steps": [observation per step], "events": [...H1 events...], "growth": {...}}
"""
import copy
import dataclasses
import gc
import sys
import weakref
from collections import Counter

from harness.core import worker_main

import krrood.verif_hooks as vh
from krrood.entity_query_language.entity import entity, let
from krrood.entity_query_language.quantify_entity import an
from krrood.entity_query_language.symbol_graph import SymbolGraph
from harness.models import sgmodel
from harness.replay.footprint import registry_footprint, krrood_census
from test.dataset.university_ontology_like_classes import Company, Person

from dataclasses import dataclass as _dataclass
from krrood.entity_query_language.predicate import Symbol
from krrood.entity_query_language.entity import inference
from krrood.entity_query_language.conclusion import Add


@_dataclass(eq=False)
class Tag(Symbol):
    """What a rule infers from a person (SymbolGraph.tla Infer): it refers to the person it was inferred from."""
    p: Person
    name: str = "tag"


CLS = dict(sgmodel.HIER)
CLS["P"] = Person
CLS["C"] = Company
CLS["T"] = Tag
NAME = {v: k for k, v in CLS.items()}

# truth value of every model instance, switchable per case: a Symbol whose class defines __bool__ / __len__ may be falsy
# while it is alive (an empty container-like symbol).  With FALSY[0] = False this is the default truthiness.
FALSY = [False]
for _k in set(CLS.values()):
    _k.__bool__ = lambda self: not FALSY[0]

EVENTS = []
CURRENT = [None]   # the Run whose objects give meaning to addresses


def sink(ev, fields):
    d = {"a": ev}
    d.update(fields)
    if ev == "add_node" and CURRENT[0] is not None:
        # which model object is being registered (0 = not an object of this history)
        d["o"] = CURRENT[0].idmap().get(fields.get("addr"), 0)
    EVENTS.append(d)


class Run:
    def __init__(self):
        self.objs = {}      # model id -> instance (the user's reference)
        self.wr = {}        # model id -> weakref
        self.cls = {}
        self.base = 0       # id offset for loop iterations
        self.dead_addrs = set()
        self.addr_of = {}
        self.addr_reuse = 0  # how often CPython handed a dead object's address to a new instance
        self.declared = None

    def census(self):
        return sorted(o for o, r in self.wr.items() if r() is not None)

    def idmap(self):
        m = {}
        for o, r in self.wr.items():
            x = r()
            if x is not None:
                m[id(x)] = o
        return m

    def query(self, klass):
        """Build, evaluate and discard a domain-less query; only counts leave this frame."""
        err = None
        try:
            res = list(an(entity(let(klass, None))).evaluate())
        except Exception as ex:  # an exception is an observation, not a harness crash
            err = f"{type(ex).__name__}: {ex}"
            res = []
        m = self.idmap()
        bag = Counter()
        foreign = 0
        none = 0
        for r in res:
            if r is None:
                none += 1
            elif id(r) in m:
                bag[m[id(r)]] += 1
            else:
                foreign += 1
        return bag, foreign, none, err

    def infer(self, p):
        x = let(Person, [p])
        q = an(entity(v := let(Tag, None), x.name != ""))
        with q:
            Add(v, inference(Tag)(p=x))
        res = [r for r in q.evaluate() if isinstance(r, Tag) and r.p is p]
        return res[-1] if res else None

    def queryx(self, klass, dom):
        """An explicit-domain query, built, evaluated and discarded inside this frame."""
        x = let(klass, dom)
        return len(list(an(entity(x)).evaluate()))

    def queryfirst(self, klass):
        """A partially consumed evaluation of a domain-less query with a (true) condition: one result, then abandoned."""
        x = let(klass, None)
        cond = x.name != ""
        if klass is Tag:
            # ... reaching the person through the tag's plain attribute (true for every tag, also for a detached one)
            from krrood.entity_query_language.entity import and_
            cond = and_(cond, x.p != x)
        if klass is Person:
            # ... whose condition also reaches ANOTHER object through an attribute (the company a person works for): true for
            # every person, and the abandoned evaluation must not keep the reached objects alive
            from krrood.entity_query_language.entity import and_
            cond = and_(cond, x.works_for != x)
        it = iter(an(entity(x, cond)).evaluate())
        try:
            r = next(it, None)
        except Exception as ex:      # an exception out of an evaluation is an observation, not a harness crash
            return f"{type(ex).__name__}: {ex}"
        m = self.idmap()
        got = m.get(id(r), 0) if r is not None else None
        it.close()
        return got

    def step(self, rec):
        a = rec["a"]
        out = {"a": a}
        if a == "create":
            o = rec["o"] + self.base
            k = CLS[rec["c"]]
            mode = rec.get("mode")
            if not mode:
                inst = k(name=f"o{o}") if rec["c"] in ("P", "C") else k(n=o)
            else:
                # a new instance that does not come from calling the class (SymbolGraph.tla CreateFrom)
                src = self.objs[rec["src"] + self.base]
                if mode == "copy":
                    inst = copy.copy(src)
                elif mode == "deepcopy":
                    inst = copy.deepcopy(src)
                elif mode == "replace":
                    inst = dataclasses.replace(src, n=o)
                elif mode == "from_dao":
                    from harness.models import sgorm
                    from krrood.ormatic.dao import to_dao
                    sgorm.interface()
                    inst = to_dao(src).from_dao()
                else:
                    raise ValueError(mode)
                if type(inst) is not k:
                    out["error"] = f"{mode} produced a {type(inst).__name__}"
                del src
            self.objs[o] = inst
            self.wr[o] = weakref.ref(inst)
            self.cls[o] = rec["c"]
            self.addr_of[o] = id(inst)
            for e in reversed(EVENTS):   # the registration event of this very object (emitted inside __new__)
                if e["a"] == "add_node" and e.get("addr") == id(inst):
                    if not e.get("o"):
                        e["o"] = o
                    break
            if id(inst) in self.dead_addrs:
                self.addr_reuse += 1
            del inst
        elif a == "drop":
            del self.objs[rec["o"] + self.base]
        elif a == "collect":
            gc.collect()
        elif a == "sweep":
            SymbolGraph().remove_dead_instances()
        elif a == "clear":
            SymbolGraph().clear()
            SymbolGraph()
        elif a == "query":
            out["census_before"] = self.census()
            bag, foreign, none, err = self.query(CLS[rec["c"]])
            if err:
                out["error"] = err
            out["bag"] = {str(k): v for k, v in sorted(bag.items())}
            out["foreign"] = foreign
            out["none"] = none
        elif a == "infer":
            # a rule query over the explicit domain [p] infers a new instance; query and variables are dropped at once
            o = rec["o"] + self.base
            try:
                inst = self.infer(self.objs[rec["p"] + self.base])
            except Exception as ex:
                out["error"] = f"{type(ex).__name__}: {ex}"
                inst = None
            if inst is not None:
                self.objs[o] = inst
                self.wr[o] = weakref.ref(inst)
                self.cls[o] = "T"
                self.addr_of[o] = id(inst)
            else:
                out.setdefault("error", "the rule inferred nothing")
            del inst
        elif a == "createref":
            # Tag(p = person) made by calling the class (SymbolGraph.tla CreateRef): a plain reference to the person
            o = rec["o"] + self.base
            inst = Tag(p=self.objs[rec["p"] + self.base])
            self.objs[o] = inst
            self.wr[o] = weakref.ref(inst)
            self.cls[o] = "T"
            self.addr_of[o] = id(inst)
            del inst
        elif a == "detach":
            self.objs[rec["o"] + self.base].p = None
        elif a == "declare":
            # the query object is built now and evaluated by a later step
            self.declared = an(entity(let(CLS[rec["c"]], None)))
        elif a == "evaldeclared":
            out["census_before"] = self.census()
            err = None
            try:
                res = list(self.declared.evaluate())
            except Exception as ex:
                err, res = f"{type(ex).__name__}: {ex}", []
            self.declared = None
            m = self.idmap()
            bag, foreign, none = Counter(), 0, 0
            for r in res:
                if r is None:
                    none += 1
                elif id(r) in m:
                    bag[m[id(r)]] += 1
                else:
                    foreign += 1
            del res
            if err:
                out["error"] = err
            out["bag"] = {str(k): v for k, v in sorted(bag.items())}
            out["foreign"] = foreign
            out["none"] = none
        elif a == "queryx":
            out["census_before"] = self.census()
            try:
                out["n"] = self.queryx(CLS[rec["c"]], [self.objs[o + self.base] for o in rec["dom"]])
            except Exception as ex:
                out["error"] = f"{type(ex).__name__}: {ex}"
        elif a == "queryfirst":
            out["first"] = self.queryfirst(CLS[rec["c"]])
        elif a == "relate":
            p, c = self.objs[rec["p"] + self.base], self.objs[rec["c"] + self.base]
            try:
                p.works_for = c
            except Exception as ex:
                out["error"] = f"{type(ex).__name__}: {ex}"
            m = self.idmap()
            rels = set()
            for r in SymbolGraph().relations():
                s, t = r.source.instance, r.target.instance
                if s is not None and t is not None and id(s) in m and id(t) in m:
                    rels.add((r.wrapped_field.public_name, m[id(s)], m[id(t)]))
            flds = set()
            if p.works_for is c:
                flds.add(("works_for", rec["p"] + self.base, rec["c"] + self.base))
            if any(x is c for x in p.member_of):
                flds.add(("member_of", rec["p"] + self.base, rec["c"] + self.base))
            if any(x is p for x in c.members):
                flds.add(("members", rec["c"] + self.base, rec["p"] + self.base))
            out["rels"] = sorted(rels)
            out["flds"] = sorted(flds)
            del p, c, m
        else:
            raise ValueError(a)
        out["live"] = self.census()
        alive = set(out["live"])
        for o, a in self.addr_of.items():
            if o not in alive:
                self.dead_addrs.add(a)
        return out

    def drop_all(self, mode="sweep"):
        self.objs.clear()
        gc.collect()
        if mode == "sweep":
            SymbolGraph().remove_dead_instances()
        else:
            # ordinary use: any evaluation prunes the registry; the query itself ranges over nothing the history created
            list(an(entity(let(sgmodel.Other, []))).evaluate())


def handle(case):
    global EVENTS
    gc.collect()
    SymbolGraph().clear()
    SymbolGraph()
    EVENTS = []
    vh.install(sink if case.get("events", True) else None)
    FALSY[0] = bool(case.get("falsy"))
    run = Run()
    CURRENT[0] = run
    res = {"steps": []}
    try:
        if case["mode"] == "c20":
            growth = []
            nmax = max([r.get("o", 0) for r in case["h"]] + [0])
            for it in range(case.get("loops", 3)):
                run.base = it * (nmax + 1) * 0  # ids are reused per iteration: the model restarts
                run.objs, run.wr, run.cls = {}, {}, {}
                steps = [run.step(r) for r in case["h"]]
                if it == 0:
                    res["steps"] = steps
                run.drop_all(case.get("end", "sweep"))
                left = run.census()
                g = SymbolGraph()
                growth.append({"krrood": dict(krrood_census()), "nodes": len(g.wrapped_instances), "footprint": registry_footprint(),
                               "relations": len(list(g.relations())),
                               "alive_after_discard": left})
            res["growth"] = growth
            res["end_query_footprint"] = dict(FOOTPRINT)
        else:
            res["steps"] = [run.step(r) for r in case["h"]]
            # final audit (C13 on whatever the history left behind): one domain-less query per class in use
            audit = {}
            for cname in sorted(set(run.cls.values())):
                census = run.census()
                bag, foreign, none, err = run.query(CLS[cname])
                audit[cname] = {"census_before": census, "bag": {str(k): v for k, v in sorted(bag.items())},
                                "foreign": foreign, "none": none, "error": err}
            res["audit"] = audit
            res["cls"] = {str(k): v for k, v in run.cls.items()}
            res["addr_reuse"] = run.addr_reuse
    finally:
        CURRENT[0] = None
        FALSY[0] = False
        vh.install(None)
    res["events"] = EVENTS
    EVENTS = []
    run.objs.clear()
    del run
    gc.collect()
    return res


FOOTPRINT = {}


def setup(args):
    gc.collect()
    gc.freeze()
    gc.disable()
    SymbolGraph().clear()
    SymbolGraph()
    # calibration: what one evaluation of the end-of-iteration query leaves behind in krrood-typed objects
    list(an(entity(let(sgmodel.Other, []))).evaluate())
    gc.collect()
    c0 = krrood_census()
    list(an(entity(let(sgmodel.Other, []))).evaluate())
    gc.collect()
    c1 = krrood_census()
    FOOTPRINT.update({t: c1[t] - c0.get(t, 0) for t in c1 if c1[t] != c0.get(t, 0)})
    return None


if __name__ == "__main__":
    worker_main(lambda c, s: handle(c), setup)
