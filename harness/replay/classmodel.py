"""Replay of ClassModel.tla models: synthesise dataclasses, build ClassDiagram / generate + import the ORM layer (C17, C06)."""
import importlib.util
import io
import itertools
import os
import sys
import tempfile

from harness.core import worker_main
from harness.models import synth

from krrood.class_diagrams.class_diagram import ClassDiagram, Association, Inheritance
from krrood.ormatic.ormatic import ORMatic

TMP = tempfile.mkdtemp(prefix="classmodel_")
ORDERS = list(itertools.permutations(("K1", "K2", "K3")))


def load(name, src):
    path = os.path.join(TMP, name + ".py")
    with open(path, "w") as f:
        f.write(src)
    spec = importlib.util.spec_from_file_location(name, path)
    mod = importlib.util.module_from_spec(spec)
    sys.modules[name] = mod
    spec.loader.exec_module(mod)
    return mod


def load_classes(m, split):
    if split == "nofuture":
        mid, src = synth.source(m, future=False)
        mod = load("cm_" + mid, src)
        return mid, {c: getattr(mod, synth.cname(c, mid)) for c in ("K1", "K2", "K3")}
    if not split:
        mid, src = synth.source(m)
        mod = load("cm_" + mid, src)
        return mid, {c: getattr(mod, synth.cname(c, mid)) for c in ("K1", "K2", "K3")}
    if "cmcommon" not in sys.modules:
        load("cmcommon", synth.COMMON)
        if TMP not in sys.path:
            sys.path.insert(0, TMP)
    mid, mods = synth.source_split(m)
    classes = {}
    for c in ("K1", "K2", "K3"):
        name = f"cms_{mid}_{c}"
        classes[c] = getattr(load(name, mods[name]), synth.cname(c, mid))
    return mid, classes


def snapshot(cd, short):
    inh = sorted((short[e.source.clazz], short[e.target.clazz]) for e in cd.inheritance_relations)
    assoc = sorted((short[e.source.clazz], e.field.public_name, short[e.target.clazz]) for e in cd.associations)
    return {"nodes": sorted(short[w.clazz] for w in cd.wrapped_classes), "inherit": [list(x) for x in inh], "assoc": [list(x) for x in assoc]}


def diagram(case):
    m = case["m"]
    mid, classes = load_classes(m, case.get("split", False))
    short = {v: k for k, v in classes.items()}
    out = {}
    try:
        order = ORDERS[case.get("order", 0) % 6]
        cd = ClassDiagram([classes[c] for c in order])
        out["diagram"] = snapshot(cd, short)
        flags = []
        for w in cd.wrapped_classes:
            own = set(getattr(w.clazz, "__annotations__", {}))
            for f in w.fields:
                if f.field.name not in own:
                    continue
                flags.append({"c": short[w.clazz], "name": f.field.name,
                              "flags": {"builtin": bool(f.is_builtin_type), "optional": bool(f.is_optional), "enum": bool(f.is_enum),
                                        "container": bool(f.is_container), "one_to_one": bool(f.is_one_to_one_relationship),
                                        "one_to_many": bool(f.is_one_to_many_relationship), "type_type": bool(f.is_type_type)}})
        out["fields"] = flags
        # read-only operations must leave the diagram intact
        before = snapshot(cd, short)
        ops = []
        for op in case.get("ops", []):
            try:
                if op == "subdiagram":
                    sub = cd.to_subdiagram_without_inherited_associations()
                    ops.append(["subdiagram", snapshot(sub, short)["assoc"]])
                elif op == "subdiagram_named":
                    sub = cd.to_subdiagram_without_inherited_associations(True)
                    ops.append(["subdiagram_named", snapshot(sub, short)["assoc"]])
                elif op == "associations":
                    ops.append(["associations", len(cd.associations)])
                elif op == "out_edges":
                    ops.append(["out_edges", sum(len(list(cd.get_outgoing_relations(w))) for w in cd.wrapped_classes)])
                elif op == "role_taker":
                    ops.append(["role_taker", [cd.get_role_taker_associations_of_cls(w.clazz) is not None for w in cd.wrapped_classes]])
                elif op == "assoc_cond":
                    ops.append(["assoc_cond", sum(len(list(cd.get_associations_with_condition(w.clazz, lambda a: True))) for w in cd.wrapped_classes)])
                elif op in ("sub_query_first", "orig_query_first"):
                    # the per-class query API of a diagram and of the view derived from it, asked in either order, must
                    # each agree with that diagram's own edge list
                    sub = cd.to_subdiagram_without_inherited_associations()

                    def asked(d):
                        return sorted([short[r.source.clazz], r.field.public_name, short[r.target.clazz]]
                                      for w in d.wrapped_classes for r in d.get_outgoing_relations(w.clazz) if hasattr(r, "field"))
                    if op == "sub_query_first":
                        s_q = asked(sub)
                        o_q = asked(cd)
                    else:
                        o_q = asked(cd)
                        s_q = asked(sub)
                    # ... and the class lookup of the ORIGINAL still hands out the original's own nodes: the very objects its
                    # edges start from
                    looked = {c: cd.get_wrapped_class(k) for c, k in classes.items()}
                    own = all(any(w is n for n in cd.wrapped_classes) for w in looked.values())
                    by_lookup = sorted([c, a.field.public_name, short[a.target.clazz]] for c, w in looked.items()
                                       for a in cd.associations if a.source == w)
                    ops.append([op, {"orig_asked": o_q, "orig_edges": snapshot(cd, short)["assoc"],
                                     "sub_asked": s_q, "sub_edges": snapshot(sub, short)["assoc"],
                                     "orig_lookup_hands_out_own_nodes": own, "orig_edges_by_lookup": by_lookup}])
                elif op == "parent_map":
                    ops.append(["parent_map", len(cd.parent_map) if hasattr(cd.parent_map, "__len__") else 0])
            except Exception as ex:
                ops.append([op, f"{type(ex).__name__}: {ex}"])
        out["ops"] = ops
        out["before"] = before
        out["after"] = snapshot(cd, short)
        # a second diagram over the same classes (another order) must be the same diagram
        cd2 = ClassDiagram([classes[c] for c in ORDERS[(case.get("order", 0) + 3) % 6]])
        out["diagram_other_order"] = snapshot(cd2, short)
        if case.get("split") is True and m["b2"] == "-" and m["b3"] == "-":
            # a new version of K1 (its module is executed again: a new class object with the same name) in a new diagram with
            # the SAME K2 / K3 classes: forward references to K1 must resolve to the class of the diagram they are in
            name = f"cms_{mid}_K1"
            _, mods = synth.source_split(m)
            k1b = getattr(load(name, mods[name]), synth.cname("K1", mid))
            short2 = {k1b: "K1", classes["K2"]: "K2", classes["K3"]: "K3"}
            cd3 = ClassDiagram([k1b, classes["K2"], classes["K3"]])
            out["diagram_reloaded_k1"] = snapshot(cd3, short2)
    except Exception as ex:
        out["error"] = f"{type(ex).__name__}: {ex}"
    return out


def generate(classes, order, twice=False, cd=None):
    cd = cd or ClassDiagram([classes[c] for c in order])
    orm = ORMatic(class_dependency_graph=cd)
    orm.make_all_tables()
    if twice:
        orm.make_all_tables()
    path = os.path.join(TMP, f"gen_{id(orm)}.py")
    with open(path, "w") as f:
        orm.to_sqlalchemy_file(f)
    with open(path) as f:
        return f.read()


def orm(case):
    import sqlalchemy
    from sqlalchemy import inspect as sa_inspect
    m = case["m"]
    mid, classes = load_classes(m, case.get("split", False))
    out = {}
    try:
        order = ORDERS[case.get("order", 0) % 6]
        text = generate(classes, order)
        out["deterministic"] = text == generate(classes, order) and text == generate(classes, order, twice=True)
        # two generators over ONE diagram object (a regeneration): the second generates what the first did
        shared = ClassDiagram([classes[c] for c in order])
        out["deterministic_over_one_diagram"] = generate(classes, order, cd=shared) == text and generate(classes, order, cd=shared) == text
        # the generated module must depend on this model's modules only (generation is a function of the model, not of what
        # the process generated before)
        import re
        foreign = sorted({m for m in re.findall(r"^import ((?:cm|cms)_\w+)", text, flags=re.M) if mid not in m})
        out["foreign_imports"] = foreign
        gen = load("orm_" + mid, text)
        gen.Base.registry.configure()
        engine = sqlalchemy.create_engine("sqlite://")
        gen.Base.metadata.create_all(engine)
        schema = {}
        for c, cls in classes.items():
            dao = getattr(gen, cls.__name__ + "DAO", None)
            if dao is None:
                schema[c] = None
                continue
            mp = sa_inspect(dao)
            base = "-"
            for k, kc in classes.items():
                b = getattr(gen, kc.__name__ + "DAO", None)
                if b is not None and b is not dao and mp.inherits is not None and mp.inherits.class_ is b:
                    base = k
            cols = []
            for col in mp.local_table.columns:
                if col.primary_key or col.name in ("polymorphic_type",):
                    continue
                cols.append({"name": col.name, "type": type(col.type).__name__, "nullable": bool(col.nullable)})
            rels = []
            short = {v.__name__ + "DAO": k for k, v in classes.items()}
            for r in mp.relationships:
                rels.append({"name": r.key, "target": short.get(r.mapper.class_.__name__, r.mapper.class_.__name__), "uselist": bool(r.uselist)})
            schema[c] = {"base": base, "cols": sorted(cols, key=lambda x: x["name"]), "rels": sorted(rels, key=lambda x: x["name"])}
        out["schema"] = schema
        # a minimal persistence smoke test: one instance per class can be converted, stored and loaded
        from krrood.ormatic.dao import to_dao
        from sqlalchemy.orm import Session
        with Session(engine) as s:
            for c, cls in classes.items():
                s.add(to_dao(cls()))
            s.commit()
        engine.dispose()
        # the model's modules executed again (what a second run of the generation script sees: the same classes as new
        # objects at other addresses, here after some unrelated allocations): the generated text is the same
        ballast = [type(f"Ballast{i}", (), {}) for i in range(case.get("order", 0) * 3 + 1)]
        _, classes_b = load_classes(m, case.get("split", False))
        out["deterministic_across_reload"] = generate(classes_b, order) == text
        del ballast
    except Exception as ex:
        out["error"] = f"{type(ex).__name__}: {str(ex)[:300]}"
    return out


def handle(case):
    return diagram(case) if case["mode"] == "diagram" else orm(case)


if __name__ == "__main__":
    import atexit, shutil
    atexit.register(lambda: shutil.rmtree(TMP, ignore_errors=True))
    worker_main(handle)
