"""Harness core: TLC runner, behaviour exchange, sharded replay, verdicts, evidence, known findings.

Conventions (DESIGN.md §2.2, §6.3, §7, §8):
  * exit 0 = property held on everything explored (KNOWN-FINDING lines allowed),
    exit 1 = at least one violation not listed in KNOWN_FINDINGS.txt (VIOLATION line printed),
    exit 2 = machinery failure (TLC error on our own spec, harness crash).
  * evidence is rewritten on every run from measured counters only.
"""
from __future__ import annotations

import hashlib
import json
import os
import re
import shutil
import subprocess
import sys
import tempfile
import time
from pathlib import Path

VERIF = Path(__file__).resolve().parent.parent
SPEC = VERIF / "spec"
EVIDENCE = VERIF / "evidence"
REPLAYS = VERIF / "replays"
FINDINGS_FILE = VERIF / "KNOWN_FINDINGS.txt"
REPO = Path(os.environ.get("KRROOD_REPO", "/repo"))
PY = os.environ.get("KRROOD_PY", "/venv/bin/python")
TLA_CP = "/opt/veriftools/tla/tla2tools.jar:/opt/veriftools/tla/CommunityModules-deps.jar"
NCPU = max(1, min(16, os.cpu_count() or 1))


class MachineryError(Exception):
    pass


# --------------------------------------------------------------------------------------------
# TLC
# --------------------------------------------------------------------------------------------
class TLCResult:
    def __init__(self, out: str, rc: int, wall: float):
        self.out = out
        self.rc = rc
        self.wall = wall
        self.states = 0  # distinct states
        self.generated = 0
        self.violated = None  # name of violated invariant/property
        self.error = None
        m = re.findall(r"(\d+) states generated, (\d+) distinct states found", out)
        if m:
            self.generated, self.states = int(m[-1][0]), int(m[-1][1])
        m = re.search(r"Invariant (\S+) is violated", out)
        if m:
            self.violated = m.group(1)
        m2 = re.search(r"Action property (\S+) is violated|Temporal properties were violated", out)
        if m2 and not self.violated:
            self.violated = m2.group(1) or "temporal"
        if "Error:" in out and not self.violated:
            # keep the first error line
            for line in out.splitlines():
                if line.startswith("Error:"):
                    self.error = line
                    break

    @property
    def ok(self):
        return self.violated is None and self.error is None and (
            "Model checking completed. No error has been found." in self.out
            or "Finished computing initial states" in self.out and "No error" in self.out
        )

    def json_lines(self):
        """Objects printed with PrintT(ToJson(..)): TLC prints the JSON text as a quoted TLA+ string."""
        res = []
        for line in self.out.splitlines():
            line = line.strip()
            if line.startswith('"{') or line.startswith('"['):
                try:
                    # TLC prints the string value with TLA+ escapes (\" and \\)
                    s = line[1:-1].replace('\\"', '"').replace("\\\\", "\\")
                    res.append(json.loads(s))
                except Exception:
                    pass
            elif line.startswith("{") or line.startswith("["):
                try:
                    res.append(json.loads(line))
                except Exception:
                    pass
        return res


def tlc(module: str, cfg: str, *, workers: int | None = None, simulate: str | None = None,
        depth: int | None = None, seed: int | None = None, env: dict | None = None,
        timeout: int = 1800, extra: list[str] | None = None, deadlock: bool = False,
        java_opts: list[str] | None = None) -> TLCResult:
    """Run TLC on spec/<module>.tla with spec/<cfg>. Returns TLCResult."""
    meta = tempfile.mkdtemp(prefix="tlcmeta_")
    cmd = ["java", "-XX:+UseParallelGC", "-Xmx8g"] + (java_opts or []) + ["-cp", TLA_CP, "tlc2.TLC",
           "-metadir", meta, "-noGenerateSpecTE", "-config", str(SPEC / cfg)]
    if not deadlock:
        cmd += ["-deadlock"]
    if simulate is not None:
        cmd += ["-simulate", simulate]
        if depth:
            cmd += ["-depth", str(depth)]
    if seed is not None:
        cmd += ["-seed", str(seed)]
    cmd += ["-workers", str(workers or NCPU)]
    cmd += extra or []
    cmd += [str(SPEC / f"{module}.tla")]
    e = dict(os.environ)
    e.update(env or {})
    t0 = time.time()
    try:
        p = subprocess.run(cmd, cwd=str(SPEC), env=e, capture_output=True, text=True, timeout=timeout)
        out, rc = p.stdout + p.stderr, p.returncode
    except subprocess.TimeoutExpired as ex:
        out = (ex.stdout or b"").decode() if isinstance(ex.stdout, bytes) else (ex.stdout or "")
        rc = 124
    finally:
        shutil.rmtree(meta, ignore_errors=True)
    return TLCResult(out, rc, time.time() - t0)


def sany(module: str) -> bool:
    p = subprocess.run(["java", "-cp", TLA_CP, "tla2sany.SANY", str(SPEC / f"{module}.tla")],
                       cwd=str(SPEC), capture_output=True, text=True)
    return p.returncode == 0 and "error" not in p.stdout.lower().replace("semantic errors:\n", "")


# --------------------------------------------------------------------------------------------
# replay in krrood subprocesses
# --------------------------------------------------------------------------------------------
def krrood_env(extra: dict | None = None) -> dict:
    e = dict(os.environ)
    e["KRROOD_VERIF"] = "1"
    e["PYTHONHASHSEED"] = "0"
    e["PYTHONDONTWRITEBYTECODE"] = "1"
    e["PYTHONPATH"] = f"{REPO}/src:{REPO}:{VERIF}"
    e.update(extra or {})
    return e


def replay(script: str, cases: list, *, shards: int | None = None, args: list[str] | None = None,
           timeout: int = 3600, env: dict | None = None) -> list:
    """Run harness/replay/<script>.py over `cases` (list of JSON-able objects) in `shards` fresh
    interpreter processes running against the working tree of the repository. Each worker reads
    ndjson cases from a file and writes one ndjson result per case. Results are returned in the
    order of `cases`. A worker that crashes is a machinery failure."""
    if not cases:
        return []
    shards = max(1, min(shards or NCPU, len(cases)))
    tmp = Path(tempfile.mkdtemp(prefix="replay_"))
    procs = []
    try:
        for s in range(shards):
            inp = tmp / f"in{s}.ndjson"
            with inp.open("w") as f:
                for i in range(s, len(cases), shards):
                    f.write(json.dumps({"i": i, "c": cases[i]}) + "\n")
            outp = tmp / f"out{s}.ndjson"
            cmd = [PY, str(VERIF / "harness" / "replay" / f"{script}.py"), str(inp), str(outp)] + (args or [])
            procs.append((subprocess.Popen(cmd, env=krrood_env(env), cwd=str(tmp), stdout=subprocess.PIPE,
                                           stderr=subprocess.STDOUT, text=True), outp))
        results = [None] * len(cases)
        for p, outp in procs:
            try:
                so, _ = p.communicate(timeout=timeout)
            except subprocess.TimeoutExpired:
                p.kill()
                raise MachineryError(f"replay worker {script} timed out")
            if p.returncode != 0:
                raise MachineryError(f"replay worker {script} failed rc={p.returncode}:\n{so[-4000:]}")
            with outp.open() as f:
                for line in f:
                    r = json.loads(line)
                    results[r["i"]] = r["r"]
        missing = [i for i, r in enumerate(results) if r is None]
        if missing:
            raise MachineryError(f"replay worker {script}: {len(missing)} cases without result")
        return results
    finally:
        for p, _ in procs:
            if p.poll() is None:
                p.kill()
        shutil.rmtree(tmp, ignore_errors=True)


def worker_main(handle, setup=None):
    """Entry point for replay workers: handle(case) -> JSON-able result."""
    inp, outp = sys.argv[1], sys.argv[2]
    state = setup(sys.argv[3:]) if setup else None
    with open(inp) as f, open(outp, "w") as g:
        for line in f:
            d = json.loads(line)
            r = handle(d["c"], state) if setup else handle(d["c"])
            g.write(json.dumps({"i": d["i"], "r": r}) + "\n")
            g.flush()


# --------------------------------------------------------------------------------------------
# known findings
# --------------------------------------------------------------------------------------------
class Finding:
    def __init__(self, status, prop, fid, text, attrs):
        self.status, self.prop, self.fid, self.text, self.attrs = status, prop, fid, text, attrs


def load_findings() -> list[Finding]:
    res = []
    if not FINDINGS_FILE.exists():
        return res
    for line in FINDINGS_FILE.read_text().splitlines():
        line = line.strip()
        if not line or line.startswith("#"):
            continue
        m = re.match(r"(open|fixed):\s+(.*)$", line)
        if not m:
            continue
        status, rest = m.groups()
        attrs = dict(re.findall(r"(\w+)=(\S+)", rest))
        text = re.sub(r"\w+=\S+\s*", "", rest).strip()
        res.append(Finding(status, attrs.get("property"), attrs.get("id"), text, attrs))
    return res


# --------------------------------------------------------------------------------------------
# check context
# --------------------------------------------------------------------------------------------
class Ctx:
    def __init__(self, pid: str, level: str):
        self.pid = pid
        self.level = level
        self.tier = os.environ.get("VERIF_TIER", "quick")
        self.seed = int(os.environ.get("VERIF_SEED", "0") or 0)
        self.t0 = time.time()
        self.states = 0
        self.transitions = 0
        self.evaluations = 0
        self.replayed = 0
        self.traces = 0
        self.nontrivial: set = set()
        self.samples: list = []
        self.violations: list = []
        self.known: dict[str, list] = {}
        self.drift = 0
        self.cov: dict = {}
        self.assumptions: list[str] = []
        self.rule = ""
        self.exhaustive = False
        self.tlc_runs: list = []
        shutil.rmtree(REPLAYS / pid, ignore_errors=True)      # replay files of earlier runs are not this run's verdicts
        self.findings = [f for f in load_findings() if f.prop == pid and f.status == "open"]
        self.finding_ids = {f.fid for f in self.findings}

    # -- TLC bookkeeping
    def run_tlc(self, module, cfg, *, expect="ok", **kw) -> TLCResult:
        r = tlc(module, cfg, **kw)
        self.states += r.states
        self.transitions += r.generated
        self.tlc_runs.append({"module": module, "cfg": cfg, "distinct": r.states, "generated": r.generated,
                              "wall_s": round(r.wall, 2), "expect": expect,
                              "result": "violated:" + r.violated if r.violated else ("ok" if r.ok else "error")})
        if r.rc == 124:
            raise MachineryError(f"TLC {module}/{cfg} timed out")
        if expect == "ok" and not r.ok:
            raise MachineryError(f"TLC {module}/{cfg}: expected success, got violated={r.violated} error={r.error}\n"
                                 + r.out[-3000:])
        if expect == "violation" and not r.violated:
            raise MachineryError(f"TLC {module}/{cfg}: expected a counter-example (non-vacuity), none found\n"
                                 + r.out[-3000:])
        return r

    # -- verdict bookkeeping
    def case(self, key, nontrivial: bool = True, sample=None):
        self.evaluations += 1
        if nontrivial:
            self.nontrivial.add(key if isinstance(key, (str, int)) else json.dumps(key, sort_keys=True))
        if sample is not None and nontrivial and len(self.samples) < 5:
            self.samples.append(sample)

    def known_finding(self, fid: str, case):
        if fid not in self.finding_ids:
            # not listed → it is a violation
            self.violation(case, note=f"attributed to unlisted finding {fid}")
            return
        self.known.setdefault(fid, []).append(case)

    def violation(self, case, note: str = ""):
        self.violations.append({"case": case, "note": note})

    def finish(self, extra_cov: dict | None = None):
        wall = time.time() - self.t0
        EVIDENCE.mkdir(exist_ok=True)
        cov = {
            "evaluations": self.evaluations,
            "distinct_nontrivial": len(self.nontrivial),
            "rule": self.rule,
            "samples": self.samples[:5],
            "states": self.states,
            "transitions": self.transitions,
            "traces_validated_against_impl": self.replayed + self.traces,
            "behaviours_replayed": self.replayed,
            "traces_validated": self.traces,
            "exhaustive": self.exhaustive,
            "model_drift": self.drift,
            "tlc_runs": self.tlc_runs,
            "known_findings_hit": {k: len(v) for k, v in self.known.items()},
        }
        if self.level == "translation_validation":
            cov["programs"] = self.evaluations
            cov["disagreements_checked"] = len(self.violations) + sum(len(v) for v in self.known.values())
        cov.update(self.cov)
        cov.update(extra_cov or {})
        ev = {
            "property_id": self.pid,
            "tier": self.tier if self.tier in ("quick", "thorough") else "quick",
            "seed": self.seed,
            "level": self.level,
            "coverage": cov,
            "assumptions": self.assumptions,
            "wall_s": round(wall, 2),
            "violations": len(self.violations),
        }
        (EVIDENCE / f"{self.pid}.json").write_text(json.dumps(ev, indent=1, default=str) + "\n")
        for f in self.findings:
            hits = self.known.get(f.fid, [])
            if hits:
                print(f"KNOWN-FINDING: property={self.pid} id={f.fid} cases={len(hits)} {f.text}")
        rc = 0
        if self.violations:
            d = REPLAYS / self.pid
            d.mkdir(parents=True, exist_ok=True)
            seen = set()
            for v in self.violations[:20]:
                blob = json.dumps(v, sort_keys=True, default=str)
                h = hashlib.sha1(blob.encode()).hexdigest()[:12]
                if h in seen:
                    continue
                seen.add(h)
                path = d / f"{h}.json"
                path.write_text(json.dumps(v, indent=1, default=str) + "\n")
                print(f"VIOLATION property={self.pid} replay={path}")
            if len(self.violations) > 20:
                print(f"({len(self.violations)} violations in total; first 20 written)")
            rc = 1
        print(f"[{self.pid}] tier={self.tier} seed={self.seed} evaluations={self.evaluations} "
              f"nontrivial={len(self.nontrivial)} states={self.states} replayed={self.replayed} traces={self.traces} "
              f"violations={len(self.violations)} known={ {k: len(v) for k, v in self.known.items()} } wall={wall:.1f}s")
        return rc


def run_check(fn, pid: str):
    """Wrap a check body so that machinery failures exit 2 and never look like verdicts."""
    try:
        rc = fn()
    except MachineryError as ex:
        print(f"MACHINERY-FAILURE property={pid}: {ex}", file=sys.stderr)
        sys.exit(2)
    sys.exit(rc)


# --------------------------------------------------------------------------------------------
# batch trace validation
# --------------------------------------------------------------------------------------------
def validate_traces(ctx: "Ctx", module: str, cfg: str, traces: list, *, chunk: int = 4000, timeout: int = 1800) -> dict:
    """traces: list of {"name": str, "ev": [event dicts with small ints / strings / booleans]}.
    Returns {name: {"v": verdict, "at": index}}. Every trace must get exactly one verdict, otherwise
    the trace spec itself is broken (machinery failure)."""
    verdicts = {}
    traces = [t for t in traces if t.get("ev", True)]
    for k in range(0, len(traces), chunk):
        part = traces[k:k + chunk]
        fd, path = tempfile.mkstemp(prefix="traces_", suffix=".ndjson")
        with os.fdopen(fd, "w") as f:
            for t in part:
                f.write(json.dumps(t) + "\n")
        try:
            r = tlc(module, cfg, env={"TRACE_FILE": path}, timeout=timeout)
        finally:
            os.unlink(path)
        ctx.states += r.states
        ctx.transitions += r.generated
        ctx.tlc_runs.append({"module": module, "cfg": cfg, "distinct": r.states, "generated": r.generated,
                             "wall_s": round(r.wall, 2), "traces": len(part),
                             "result": "violated:" + r.violated if r.violated else ("ok" if r.ok else "error")})
        if r.error or (r.violated and r.violated not in ("C20reg",)):
            raise MachineryError(f"trace validation {module}/{cfg} failed: {r.error or r.violated}\n{r.out[-2000:]}")
        for j in r.json_lines():
            if isinstance(j, dict) and "t" in j and "v" in j:
                # the first verdict for a trace wins (a rejected trace prints once; accepted prints once)
                verdicts.setdefault(j["t"], j)
        if r.violated:
            verdicts["__invariant__"] = {"v": "prop:" + r.violated, "at": -1}
        missing = [t["name"] for t in part if t["name"] not in verdicts]
        if missing:
            raise MachineryError(f"trace validation {module}/{cfg}: no verdict for {len(missing)} traces, e.g. {missing[:3]}\n{r.out[-1500:]}")
    return verdicts
