CONSTANTS
  Model = "geo"
  MaxSteps = 4
  Hist = TRUE
  AllowDie = TRUE
  TransOnlyAsserted = FALSE
  TransOutOnly = FALSE
  NoInverseOfInferred = FALSE
  DirectSuperOnly = FALSE
SPECIFICATION Spec
CONSTRAINT EmitDie
