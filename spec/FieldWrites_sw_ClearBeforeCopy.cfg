CONSTANTS
  MaxSteps = 2
  MaxLen = 4
  Hist = FALSE
  ClearBeforeCopy = TRUE
  CopyThroughSet = FALSE
  AliasedFirstAssignment = FALSE
  UnhookedExtend = FALSE
SPECIFICATION Spec
INVARIANT KeepsData
