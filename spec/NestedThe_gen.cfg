CONSTANTS
  MaxBindings = 4
  MaxCount = 2
  MemoFirst = FALSE
  Streaming = TRUE
SPECIFICATION Spec
CONSTRAINT Emit
CHECK_DEADLOCK FALSE
