CONSTANT CollapsePartners = TRUE
SPECIFICATION Spec
INVARIANT SameBag
