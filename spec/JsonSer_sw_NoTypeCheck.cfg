CONSTANTS
  Part = "tag"
  MaxDepth = 0
  SampleSize = 0
  NoTypeCheck = TRUE
  ImportOnlyNotFound = FALSE
  MroRegistryLookup = FALSE
  NoClassCheck = FALSE
SPECIFICATION Spec
INVARIANT OnlyDocumented
