CONSTANTS
  Part = "tag"
  MaxDepth = 0
  SampleSize = 0
  NoTypeCheck = TRUE
  ImportOnlyNotFound = FALSE
  NoClassCheck = FALSE
SPECIFICATION Spec
INVARIANT OnlyDocumented
