CONSTANTS
  Model = "family"
  MaxSteps = 2
  Hist = FALSE
  AllowDie = FALSE
  TransOnlyAsserted = FALSE
  TransOutOnly = FALSE
  NoInverseOfInferred = FALSE
  DirectSuperOnly = TRUE
SPECIFICATION Spec
INVARIANT ClosureReached
