CONSTANTS
  Model = "geo"
  MaxSteps = 4
  Hist = FALSE
  AllowDie = TRUE
  TransOnlyAsserted = FALSE
  TransOutOnly = FALSE
  NoInverseOfInferred = FALSE
  DirectSuperOnly = FALSE
SPECIFICATION Spec
INVARIANT ClosureReached
PROPERTY Monotone
