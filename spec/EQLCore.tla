---- MODULE EQLCore ----
EXTENDS Naturals, Sequences, FiniteSets, TLC, Json, Randomization
(***************************************************************************************************
 C01 / C02 (and the reference for C07, C11) - first-order semantics of EQL conditions.

 Expressions are nested tuples:
    <<"cmp", op, t1, t2>>   op in eq ne lt ge        <<"in", t, coll>>      (in_(t, coll) / contains(coll, t))
    <<"and", e, e>>  <<"or", e, e>>  <<"not", e>>
    <<"exists", v, e>>   transparent at set level: every variable of e stays a query variable; the documentation's reading is
                         "one result per value of v for which e holds for some values of the other variables"
    <<"forall", v, e>>   v is bound universally over its domain (family "quant")
 Terms:  <<"var", v>>   <<"attr", v, name>>   <<"lit", c>>   <<"attr2", v, "ref", name>>  (x.ref.a)
 Layer R:  Sat (ordinary first-order reading), Answers (set of rows), Bag (one row per satisfying
           assignment of ALL the query's variables), InFragment (C02's conjunctive / else-if fragment).
 Layer I:  Ev - big-step model of the generator pipeline of symbolic.py (comparator evaluates the side
           with an already bound variable first and drops false operand results; AND / ElseIf / Union
           thread bindings and falsity; not_ = a Not node, except over a union-form or_ where it is
           De Morgan (NegUnionFlipsEach = TRUE is the behaviour before the fix and is refuted by TLC)).
 One TLC state = one condition; the generator configs print, per condition, the expectation for every
 (domain assignment, selection) case, so that the replayer evaluates the real query once per case.
 ***************************************************************************************************)
CONSTANTS Family,            \* "logic" | "logic6" | "access"   which atom vocabulary
          MaxDepth,          \* nesting depth of and/or/not
          SampleSize,        \* 0 = all conditions of that depth; otherwise a random subset of that size (RandomSubset)
          NegUnionFlipsEach,
          NegNestedUnionFlips, \* deviation (TRUE = before the fix, refuted by TLC at depth 3): not_ over an and_ / or_ that CONTAINS a union-form or_
                               \* below it flips the outputs one by one instead of pushing the negation down by De Morgan
          FalsyObjs,         \* objects of the world whose Python truth value is False (a class with __bool__ / __len__); R never looks at it
          OperandTruthFilter \* deviation (TRUE = before the fix, refuted by TLC): a comparison drops a binding whose already bound
                             \* variable operand holds a falsy value (the operand's result is filtered by its truth value)
VARIABLE cond

Objs == {"o1", "o2", "o3", "o4"}
Vars == {"x", "y"}
\* complete world: one object per attribute vector; items / ref give collections and paths
AttrOf == [o \in Objs |-> CASE o = "o1" -> [a |-> 0, b |-> 0] [] o = "o2" -> [a |-> 0, b |-> 1]
                            [] o = "o3" -> [a |-> 1, b |-> 0] [] OTHER -> [a |-> 1, b |-> 1]]
\* world 2 = world 1 after an in-place edit of two attribute values (o1.a := 1, o4.b := 0): what the SAME query object must
\* answer when it is evaluated again after the edit
AttrOf2 == [AttrOf EXCEPT !["o1"].a = 1, !["o4"].b = 0]
AttrW(w) == IF w = 1 THEN AttrOf ELSE AttrOf2
\* set-valued attribute, ordered by inclusion (a partial order: neither  s < t  nor  s >= t  for incomparable sets)
SOf == [o \in Objs |-> CASE o = "o1" -> {} [] o = "o2" -> {1} [] o = "o3" -> {2} [] OTHER -> {1, 2}]
WOf == [o \in Objs |-> CASE o = "o1" -> 0 [] o = "o2" -> 1 [] o = "o3" -> 99 [] OTHER -> 1]     \* 99 = None (Optional attribute)
ItemsOf == [o \in Objs |-> CASE o = "o1" -> <<>> [] o = "o2" -> <<"o1">> [] o = "o3" -> <<"o1", "o4">> [] OTHER -> <<"o4", "o2">>]
RefOf == [o \in Objs |-> CASE o = "o1" -> "o2" [] o = "o2" -> "o2" [] o = "o3" -> "o4" [] OTHER -> "o1"]
\* the quantifier family also enumerates a domain in reverse order: an evaluation that abandons a pass over a domain part-way
\* (for_all stops at the first counter-example) must still see the whole domain on the next pass
Doms == { <<>>, <<"o3">>, <<"o1", "o2", "o3", "o4">> } \cup (IF Family = "quant" THEN { <<"o4", "o3", "o2", "o1">> } ELSE {})
Sels == { <<"x">>, <<"y">>, <<"x", "y">> }

A(v, n) == <<"attr", v, n>>
L(c) == <<"lit", c>>
Cmp(op, s, t) == <<"cmp", op, s, t>>
AtomsLogic == { Cmp("eq", A("x", "a"), L(0)), Cmp("eq", A("y", "a"), L(0)),
                Cmp("eq", A("x", "a"), A("y", "b")), <<"in", <<"var", "x">>, A("y", "items")>> }
AtomsLogic6 == AtomsLogic \cup { Cmp("lt", A("x", "b"), L(1)), Cmp("ne", A("y", "b"), A("x", "b")) }
AtomsAccess == { Cmp("eq", <<"attr2", "x", "ref", "a">>, L(0)), Cmp("ge", <<"attr2", "y", "ref", "b">>, A("x", "a")),
                 <<"in", <<"attr", "x", "ref">>, A("y", "items")>>, Cmp("eq", A("x", "ref"), <<"var", "y">>),
                 Cmp("ne", <<"var", "x">>, <<"var", "y">>), Cmp("eq", A("y", "a"), L(1)) }
Binary == { Cmp("eq", A("x", "a"), A("y", "b")), <<"in", <<"var", "x">>, A("y", "items")>>, Cmp("ge", A("x", "b"), A("y", "a")) }
AtomsQuant == { <<"forall", "y", c>> : c \in Binary } \cup { <<"exists", v, c>> : v \in {"x", "y"}, c \in Binary }
              \* a union-form or_ (operands over different variables) inside the universal condition
              \cup { <<"forall", "y", <<"or", Cmp("eq", A("y", "a"), L(0)), Cmp("eq", A("x", "b"), L(1))>> >>,
                      <<"forall", "y", <<"or", Cmp("lt", A("x", "b"), L(1)), Cmp("eq", A("y", "b"), L(0))>> >> }
              \cup { Cmp("eq", A("x", "a"), L(0)), Cmp("lt", A("x", "b"), L(1)) }
\* the translatable vocabulary of C07: attribute vs literal (incl. an Optional attribute holding None), a path across a
\* relationship, membership in a literal collection, and a comparison between attributes of two variables
AtomsSql == { Cmp("eq", A("x", "a"), L(0)), Cmp("lt", A("x", "b"), L(1)), Cmp("ge", A("x", "b"), L(1)), Cmp("ne", A("x", "a"), L(1)),
              Cmp("eq", <<"attr2", "x", "ref", "a">>, L(0)), Cmp("ge", <<"attr2", "x", "ref", "b">>, L(1)),
              Cmp("eq", A("x", "w"), L(1)), Cmp("ne", A("x", "w"), L(1)),
              <<"in", A("x", "a"), <<"setlit", <<0>> >> >>, <<"in", A("x", "b"), <<"setlit", <<0, 1>> >> >>,
              Cmp("eq", A("x", "a"), A("y", "b")) }
\* partially ordered values: the negation of  <  is not  >=
AtomsPoset == { <<"scmp", "lt", A("x", "s"), A("y", "s")>>, <<"scmp", "ge", A("x", "s"), A("y", "s")>>,
                <<"scmp", "lt", A("y", "s"), A("x", "s")>>, Cmp("eq", A("x", "a"), L(0)), Cmp("eq", A("y", "a"), L(0)) }
\* an Optional attribute that holds None for one object (99 = None): only == and != are defined on it
AtomsOptional == { Cmp("eq", A("x", "w"), L(1)), Cmp("ne", A("x", "w"), L(1)), Cmp("eq", A("x", "w"), A("y", "w")), Cmp("ne", A("y", "w"), A("x", "w")),
                   Cmp("eq", A("x", "a"), L(0)), <<"in", <<"var", "x">>, A("y", "items")>> }
Atoms == CASE Family = "optional" -> AtomsOptional [] Family = "logic" -> AtomsLogic [] Family = "sql" -> AtomsSql [] Family = "poset" -> AtomsPoset [] Family = "logic6" -> AtomsLogic6 [] Family = "quant" -> AtomsQuant [] OTHER -> AtomsAccess
RECURSIVE ExprD(_)
ExprD(d) == IF d = 0 THEN Atoms
            ELSE LET S == ExprD(d - 1) IN
                 S \cup { <<"and", p, q>> : p \in S, q \in S } \cup { <<"or", p, q>> : p \in S, q \in S } \cup { <<"not", p>> : p \in S }
SeqToSet(s) == { s[i] : i \in DOMAIN s }

\* ---------------- layer R
TermVal(t, asg, w) == CASE t[1] = "lit" -> t[2]
                     [] t[1] = "var" -> asg[t[2]]
                     [] t[1] = "attr" -> (IF t[3] = "items" THEN ItemsOf[asg[t[2]]] ELSE IF t[3] = "ref" THEN RefOf[asg[t[2]]]
                                          ELSE IF t[3] = "w" THEN WOf[asg[t[2]]] ELSE IF t[3] = "s" THEN SOf[asg[t[2]]]
                                          ELSE AttrW(w)[asg[t[2]]][t[3]])
                     [] t[1] = "setlit" -> t[2]
                     [] t[1] = "attr2" -> AttrW(w)[RefOf[asg[t[2]]]][t[4]]
Apply(op, l, r) == CASE op = "eq" -> l = r [] op = "ne" -> l # r [] op = "lt" -> l < r [] op = "ge" -> l >= r
With(asg, v, o) == [w \in (DOMAIN asg) \cup {v} |-> IF w = v THEN o ELSE asg[w]]
\* comparison of sets by inclusion (Python's  <  and  >=  on sets)
ApplyS(op, l, r) == IF op = "lt" THEN (l \subseteq r /\ l # r) ELSE r \subseteq l
RECURSIVE SatW(_, _, _, _)
SatW(e, asg, dom, w) == CASE e[1] = "cmp" -> Apply(e[2], TermVal(e[3], asg, w), TermVal(e[4], asg, w))
                 [] e[1] = "scmp" -> ApplyS(e[2], TermVal(e[3], asg, w), TermVal(e[4], asg, w))
                 [] e[1] = "in"  -> TermVal(e[2], asg, w) \in SeqToSet(TermVal(e[3], asg, w))
                 [] e[1] = "and" -> SatW(e[2], asg, dom, w) /\ SatW(e[3], asg, dom, w)
                 [] e[1] = "or"  -> SatW(e[2], asg, dom, w) \/ SatW(e[3], asg, dom, w)
                 [] e[1] = "not" -> ~SatW(e[2], asg, dom, w)
                 [] e[1] = "exists" -> SatW(e[3], asg, dom, w)
                 [] e[1] = "forall" -> \A o \in SeqToSet(dom[e[2]]) : SatW(e[3], With(asg, e[2], o), dom, w)
Sat(e, asg, dom) == SatW(e, asg, dom, 1)
RECURSIVE VarsOf(_)
VarsOf(e) == CASE e[1] = "lit" -> {}
               [] e[1] = "setlit" -> {}
               [] e[1] \in {"var", "attr", "attr2"} -> {e[2]}
               [] e[1] \in {"cmp", "scmp"} -> VarsOf(e[3]) \cup VarsOf(e[4])
               [] e[1] = "in" -> VarsOf(e[2]) \cup VarsOf(e[3])
               [] e[1] \in {"not", "notnode"} -> VarsOf(e[2])
               [] e[1] = "exists" -> VarsOf(e[3]) \cup {e[2]}
               [] e[1] = "forall" -> VarsOf(e[3]) \ {e[2]}
               [] OTHER -> VarsOf(e[2]) \cup VarsOf(e[3])
\* a selection is a sequence of variable names or of selected attribute expressions  "x.a"
SelVar(s) == IF s \in {"x", "y"} THEN s ELSE "x"
QVars(e, sel) == VarsOf(e) \cup { SelVar(sel[i]) : i \in DOMAIN sel }
SatAsgsW(e, dom, sel, w) == { g \in [QVars(e, sel) -> Objs] : (\A v \in QVars(e, sel) : g[v] \in SeqToSet(dom[v])) /\ SatW(e, g, dom, w) }
SatAsgs(e, dom, sel) == SatAsgsW(e, dom, sel, 1)
\* every selected expression is applied to the SAME row's assignment
RowOfW(g, sel, w) == [i \in DOMAIN sel |-> IF sel[i] \in {"x", "y"} THEN g[sel[i]] ELSE ToString(AttrW(w)[g["x"]].a)]
RowOf(g, sel) == RowOfW(g, sel, 1)
AnswersW(e, dom, sel, w) == { RowOfW(g, sel, w) : g \in SatAsgsW(e, dom, sel, w) }
Answers(e, dom, sel) == AnswersW(e, dom, sel, 1)
Bag(e, dom, sel) == LET S == SatAsgs(e, dom, sel) IN { <<r, Cardinality({ g \in S : RowOf(g, sel) = r })>> : r \in Answers(e, dom, sel) }
\* C02's fragment: and_ of atoms and negated atoms; or_ only between operands over the same variables
RECURSIVE InFragment(_)
InFragment(e) == CASE e[1] \in {"cmp", "in", "scmp"} -> TRUE
                   [] e[1] \in {"exists", "forall"} -> FALSE
                   [] e[1] = "not" -> e[2][1] \in {"cmp", "in", "scmp"}
                   [] e[1] = "and" -> InFragment(e[2]) /\ InFragment(e[3])
                   [] e[1] = "or" -> VarsOf(e[2]) = VarsOf(e[3]) /\ InFragment(e[2]) /\ InFragment(e[3])
\* the statement does not settle an empty-domain condition variable outside the fragment (strict vs short-circuit reading)
Ambiguous(e, dom) == (\E v \in VarsOf(e) : dom[v] = <<>>) /\ ~InFragment(e)

\* ---------------- layer I: the pipeline.  A result is [b: partial binding, f: is_false]
Bound(b) == DOMAIN b
Ext(b, v, o) == [w \in Bound(b) \cup {v} |-> IF w = v THEN o ELSE b[w]]
RECURSIVE Ev(_, _, _), Flat(_)
Flat(ss) == IF ss = <<>> THEN <<>> ELSE ss[1] \o Flat(Tail(ss))
TermOn(t, o) == CASE t[1] = "var" -> o
                  [] t[1] = "attr" -> (IF t[3] = "items" THEN ItemsOf[o] ELSE IF t[3] = "ref" THEN RefOf[o] ELSE IF t[3] = "w" THEN WOf[o]
                                       ELSE IF t[3] = "s" THEN SOf[o] ELSE AttrOf[o][t[3]])
                  [] t[1] = "attr2" -> AttrOf[RefOf[o]][t[4]]
\* a term yields one result per value of its variable (enumerating the domain when the variable is unbound)
EvT(t, b, dom) ==
  IF t[1] = "lit" THEN << [b |-> b, v |-> t[2]] >>
  ELSE IF t[2] \in Bound(b) THEN << [b |-> b, v |-> TermOn(t, b[t[2]])] >>
  ELSE [i \in DOMAIN dom[t[2]] |-> [b |-> Ext(b, t[2], dom[t[2]][i]), v |-> TermOn(t, dom[t[2]][i])]]
HasBound(t, b) == t[1] # "lit" /\ t[2] \in Bound(b)
EvCmp(e, b, dom) ==
  LET lt == IF e[1] = "in" THEN e[3] ELSE e[3]       \* Comparator(left = container | first operand, right = item | second)
      rt == IF e[1] = "in" THEN e[2] ELSE e[4]
      rightFirst == b # << >> /\ HasBound(rt, b)
      first == IF rightFirst THEN rt ELSE lt
      second == IF rightFirst THEN lt ELSE rt
      Dropped(t, bb) == OperandTruthFilter /\ t[1] = "var" /\ t[2] \in Bound(bb) /\ bb[t[2]] \in FalsyObjs
      F1 == IF Dropped(first, b) THEN <<>> ELSE EvT(first, b, dom)
  IN Flat([i \in DOMAIN F1 |->
            LET F2 == IF Dropped(second, F1[i].b) THEN <<>> ELSE EvT(second, F1[i].b, dom)
            IN [j \in DOMAIN F2 |->
                 LET lv == IF rightFirst THEN F2[j].v ELSE F1[i].v
                     rv == IF rightFirst THEN F1[i].v ELSE F2[j].v
                     res == IF e[1] = "in" THEN rv \in SeqToSet(lv) ELSE Apply(e[2], lv, rv)
                 IN [b |-> F2[j].b, f |-> ~res]]])
IsUnion(e) == e[1] = "or" /\ VarsOf(e[2]) # VarsOf(e[3])
\* not_(): a Not node over anything, except (after the fix) De Morgan over a union-form or_
RECURSIVE Inv(_), HasUnion(_)
HasUnion(e) == CASE e[1] \in {"and", "or"} -> IsUnion(e) \/ HasUnion(e[2]) \/ HasUnion(e[3])
                 [] e[1] \in {"not", "notnode"} -> HasUnion(e[2])
                 [] OTHER -> FALSE
Inv(e) == IF ~NegUnionFlipsEach /\ IsUnion(e) THEN <<"and", Inv(e[2]), Inv(e[3])>>
          ELSE IF ~NegNestedUnionFlips /\ e[1] = "and" /\ HasUnion(e) THEN <<"or", Inv(e[2]), Inv(e[3])>>
          ELSE IF ~NegNestedUnionFlips /\ e[1] = "or" /\ ~IsUnion(e) /\ HasUnion(e) THEN <<"and", Inv(e[2]), Inv(e[3])>>
          ELSE <<"notnode", e>>
Ev(e, b, dom) ==
  CASE e[1] \in {"cmp", "in"} -> EvCmp(e, b, dom)
    [] e[1] = "and" -> LET Lft == Ev(e[2], b, dom)
                       IN Flat([i \in DOMAIN Lft |-> IF Lft[i].f THEN << [b |-> Lft[i].b, f |-> TRUE] >> ELSE Ev(e[3], Lft[i].b, dom)])
    [] e[1] = "or" -> LET Lft == Ev(e[2], b, dom)
                          leftPart == Flat([i \in DOMAIN Lft |-> IF Lft[i].f THEN Ev(e[3], Lft[i].b, dom) ELSE << [b |-> Lft[i].b, f |-> FALSE] >>])
                      IN IF IsUnion(e) THEN leftPart \o Ev(e[3], b, dom) ELSE leftPart
    [] e[1] = "not" -> Ev(Inv(e[2]), b, dom)
    [] e[1] = "notnode" -> LET C == Ev(e[2], b, dom) IN [k \in DOMAIN C |-> [b |-> C[k].b, f |-> ~C[k].f]]
\* Entity / SetOf: true results only; selected variables that the conditions left unbound are enumerated
RECURSIVE SelRows(_, _, _, _)
SelRows(b, sel, i, dom) == IF i > Len(sel) THEN { << >> }
                           ELSE LET vals == IF sel[i] \in Bound(b) THEN {b[sel[i]]} ELSE SeqToSet(dom[sel[i]])
                                IN { <<o>> \o rest : o \in vals, rest \in SelRows(b, sel, i + 1, dom) }
Rows(e, dom, sel) == LET R == Ev(e, << >>, dom)
                     IN UNION { SelRows(R[k].b, sel, 1, dom) : k \in { kk \in DOMAIN R : ~R[kk].f } }

\* ---------------- one state per condition
\* sampling picks (connective, left, right) triples from a product set, which TLC samples without enumerating it
Mk(t) == IF t[1] = "not" THEN <<"not", t[2]>> ELSE <<t[1], t[2], t[3]>>
Pool == IF SampleSize = 0 THEN ExprD(MaxDepth)
        ELSE LET S0 == ExprD(MaxDepth - 1)
                 \* RandomSubset needs a set of at most 10^6 elements: deeper levels draw their operands from a sample of the level below
                 S == IF Cardinality(S0) > 500 THEN RandomSubset(500, S0) ELSE S0
             IN { Mk(t) : t \in RandomSubset(SampleSize, {"and", "or", "not"} \X S \X S) }
Init == cond \in Pool
Next == FALSE /\ UNCHANGED cond
Spec == Init /\ [][Next]_cond
\* quantified family: the bound variable ranges over a non-empty domain (an empty universal domain is a recorded finding)
DomAsgs == { d \in [Vars -> Doms] : ~Ambiguous(cond, d) /\ (Family = "quant" => d["y"] # <<>>)
                                     /\ (Family = "sql" => \A v \in Vars : d[v] = <<"o1", "o2", "o3", "o4">>) }   \* SQL ranges over the whole table
RECURSIVE HasForall(_)
HasForall(e) == CASE e[1] = "forall" -> TRUE
                  [] e[1] \in {"and", "or"} -> HasForall(e[2]) \/ HasForall(e[3])
                  [] e[1] = "not" -> HasForall(e[2])
                  [] e[1] = "exists" -> HasForall(e[3])
                  [] OTHER -> FALSE
CaseSels == IF Family = "sql" THEN { <<"x">> }
            ELSE IF Family = "quant" THEN (IF HasForall(cond) THEN { <<"x">> } ELSE { <<"x">>, <<"x", "y">> })
            ELSE IF Family = "logic" THEN Sels \cup { <<"x", "x.a">> }
            ELSE Sels
\* I => R : the pipeline returns exactly the satisfying rows
EngineSound == \A d \in DomAsgs, s \in Sels : Rows(cond, d, s) = Answers(cond, d, s)
\* meta-properties of the reference itself (guard the oracle)
RefSane == \A d \in [Vars -> Doms], s \in CaseSels :
             /\ Answers(<<"not", <<"not", cond>>>>, d, s) = Answers(cond, d, s)
             /\ (cond[1] = "or" => Answers(cond, d, s) = Answers(cond[2], d, s) \cup Answers(cond[3], d, s)
                                  \/ VarsOf(cond[2]) # VarsOf(cond[3]))
             /\ (cond[1] = "not" /\ cond[2][1] = "or" =>
                   Answers(cond, d, s) = Answers(<<"and", <<"not", cond[2][2]>>, <<"not", cond[2][3]>>>>, d, s))
             /\ ((\E v \in QVars(cond, s) : d[v] = <<>>) => Answers(cond, d, s) = {})
Cases == { [dom |-> d, sel |-> s, exp |-> Answers(cond, d, s), exp2 |-> AnswersW(cond, d, s, 2),
            bag |-> IF InFragment(cond) THEN Bag(cond, d, s) ELSE {}] : d \in DomAsgs, s \in CaseSels }
Emit == PrintT(ToJson([cond |-> cond, frag |-> InFragment(cond), cases |-> Cases]))
====
