CONSTANTS
  Model = "family"
  MaxSteps = 3
  Hist = TRUE
  AllowDie = FALSE
  TransOnlyAsserted = FALSE
  TransOutOnly = FALSE
  NoInverseOfInferred = FALSE
  DirectSuperOnly = FALSE
SPECIFICATION Spec
CONSTRAINT Emit
