---- MODULE Match ----
EXTENDS Naturals, Sequences, FiniteSets, TLC, Json
(***************************************************************************************************
 C11 - pattern matching is equivalent to the explicit query it abbreviates.

 Patterns over Cabinet(container, drawers) in a fixed world with value-equal twins (c1b ~ c1, d3 ~ d1).
 Layer R (MatchSem): a literal means Python equality (value equality classes Eq), membership for a collection
   attribute; a nested match constrains the attribute value's type and attributes (for a collection: SOME
   element); match_any = at least one common element; match_all = the same set of elements.
   Results are domain ELEMENTS (identity): two cabinets with equal attribute values are two answers.
 Sel: which inner part a select / select_any reports for a matched cabinet.
 ***************************************************************************************************)
Conts == {"c1","c2","c1b"}          \* c1b is a value-equal twin of c1
Hnds == {"h1","h2"}
Drws == {"d1","d2","d3"}            \* d3 is a value-equal twin of d1
Cabs == {"k0","k1","k2","k3","k4","k5"}      \* k5 holds the equal twins d1 and d3, in that order
EqCls == [o \in Conts \cup Hnds \cup Drws |-> CASE o = "c1b" -> "c1" [] o = "d3" -> "d1" [] OTHER -> o]
Eq(a, b) == EqCls[a] = EqCls[b]
NameOf == [o \in Conts \cup Hnds |-> CASE o = "c1b" -> "c1" [] OTHER -> o]
TypeOf == [o \in Conts \cup Hnds |-> IF o \in Conts THEN "Container" ELSE "Handle"]
IsA(o, T) == T = "Body" \/ TypeOf[o] = T
DHandle == [d \in Drws |-> CASE d = "d2" -> "h2" [] OTHER -> "h1"]
DCont == [d \in Drws |-> CASE d = "d1" -> "c1" [] d = "d2" -> "c2" [] OTHER -> "c1b"]
KCont == [k \in Cabs |-> CASE k = "k0" -> "c1" [] k = "k1" -> "c2" [] k = "k2" -> "c1" [] k = "k3" -> "c1b" [] OTHER -> "c2"]
\* a field that the value equality of drawers ignores: d1 and d3 are equal, but only d3 (and d2) is `correct`
DCorrect == [d \in Drws |-> d # "d1"]
KDrws == [k \in Cabs |-> CASE k = "k0" -> {"d1","d2"} [] k = "k1" -> {"d1","d2"} [] k = "k2" -> {"d1"} [] k = "k3" -> {} [] k = "k4" -> {"d3"}
                                [] OTHER -> {"d1","d3"}]
\* patterns for the container attribute
PC == { <<"none">> } \cup { <<"lit", c>> : c \in {"c1","c2"} }
        \cup { <<"match", T, n>> : T \in {"Container","Body"}, n \in {"*","c1","c2"} }     \* "*" = no name constraint
\* patterns for the drawers attribute (a collection)
PD == { <<"none">>, <<"correct">> } \cup { <<"lit", d>> : d \in {"d1","d2"} }       \* correct = match(Drawer)(correct=True)
        \cup { <<"match", hn, cn>> : hn \in {"*","h1","h2"}, cn \in {"*","c1","c2"} }        \* match(Drawer)(handle=match(Handle)(name=hn), container=match(Container)(name=cn))
        \cup { <<"any", S>> : S \in (SUBSET {"d1","d2"}) \ {{}} } \cup { <<"all", S>> : S \in (SUBSET {"d1","d2"}) \ {{}} }
SatC(p, k) == CASE p[1] = "none" -> TRUE
                [] p[1] = "lit" -> Eq(KCont[k], p[2])
                [] p[1] = "match" -> IsA(KCont[k], p[2]) /\ (p[3] = "*" \/ NameOf[KCont[k]] = p[3])
SatDW(p, k, KD) == CASE p[1] = "none" -> TRUE
                [] p[1] = "correct" -> \E d \in KD[k] : DCorrect[d]
                [] p[1] = "lit" -> \E d \in KD[k] : Eq(d, p[2])
                [] p[1] = "match" -> \E d \in KD[k] : (p[2] = "*" \/ NameOf[DHandle[d]] = p[2]) /\ (p[3] = "*" \/ NameOf[DCont[d]] = p[3])
                [] p[1] = "any" -> \E d \in KD[k], s \in p[2] : Eq(d, s)
                [] p[1] = "all" -> (\A d \in KD[k] : \E s \in p[2] : Eq(d, s)) /\ (\A s \in p[2] : \E d \in KD[k] : Eq(d, s))
SatD(p, k) == SatDW(p, k, KDrws)
\* the world after  k2.drawers.append(d2)  (an in-place edit between two evaluations of the same query object)
KDrws2 == [KDrws EXCEPT !["k2"] = {"d1", "d2"}]
\* a second world for type-filtering nested matches on a collection of a base type: FruitBox(fruits: List[Body])
Boxes == {"b0", "b1", "b2", "b3"}
BFruits == [b \in Boxes |-> CASE b = "b0" -> {"apple_a", "body_x"} [] b = "b1" -> {"body_x", "body_y"} [] b = "b2" -> {"apple_b"} [] OTHER -> {}]
FruitIsApple == [f \in {"apple_a", "apple_b", "body_x", "body_y"} |-> f \in {"apple_a", "apple_b"}]
FruitName == [f \in {"apple_a", "apple_b", "body_x", "body_y"} |-> CASE f = "apple_a" -> "a" [] f = "apple_b" -> "b" [] f = "body_x" -> "a" [] OTHER -> "y"]
\* fruits = match(T)(name = n):  SOME element has type T (and that name)
PF == { <<T, nm>> : T \in {"Apple", "Body"}, nm \in {"*", "a", "b", "y"} } \ { <<"Body", "*">> }   \* match(declared type)() generates no condition: not settled
SatF(p, b) == \E f \in BFruits[b] : (p[1] = "Body" \/ FruitIsApple[f]) /\ (p[2] = "*" \/ FruitName[f] = p[2])
FruitExpected == [p \in PF |-> { b \in Boxes : SatF(p, b) }]
VARIABLES pc, pd
Init == pc \in PC /\ pd \in PD /\ ~(pc = <<"none">> /\ pd = <<"none">>)
Next == FALSE /\ UNCHANGED <<pc, pd>>
Expected == { k \in Cabs : SatC(pc, k) /\ SatD(pd, k) }
\* select(Container)(...) on the container attribute reports, per matched cabinet, that cabinet's container
SelContainer == { <<k, KCont[k]>> : k \in Expected }
\* select(Drawer)(...) directly on the collection attribute reports, per matched cabinet, each of its drawers that satisfies the
\* nested pattern (the collection is flattened: one row per matching element)
DrawerOK(p, d) == (p[2] = "*" \/ NameOf[DHandle[d]] = p[2]) /\ (p[3] = "*" \/ NameOf[DCont[d]] = p[3])
SelDrawer == IF pd[1] = "match" THEN { kd \in Expected \X Drws : kd[2] \in KDrws[kd[1]] /\ DrawerOK(pd, kd[2]) } ELSE {}
\* sanity of the reference: constraining more never matches more
Monotone == /\ Expected \subseteq { k \in Cabs : SatC(pc, k) }
            /\ Expected \subseteq { k \in Cabs : SatD(pd, k) }
Expected2 == { k \in Cabs : SatC(pc, k) /\ SatDW(pd, k, KDrws2) }
Emit == PrintT(ToJson([pc |-> pc, pd |-> pd, exp |-> Expected, selc |-> SelContainer, exp2 |-> Expected2, seld |-> SelDrawer,
                       fruit |-> IF pc = <<"none">> /\ pd = <<"lit", "d1">> THEN { [p |-> p, exp |-> FruitExpected[p]] : p \in PF } ELSE {}]))
====
