CONSTANTS
  MaxBindings = 4
  MaxCount = 2
  MemoFirst = FALSE
  Streaming = TRUE
SPECIFICATION Spec
INVARIANT TypeOK
INVARIANT PerBinding
INVARIANT Complete
CHECK_DEADLOCK FALSE
