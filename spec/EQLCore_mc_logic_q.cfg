CONSTANTS
  Family = "logic"
  MaxDepth = 2
  SampleSize = 600
  NegUnionFlipsEach = FALSE
  FalsyObjs = {}
  OperandTruthFilter = FALSE
SPECIFICATION Spec
INVARIANT EngineSound
INVARIANT RefSane
