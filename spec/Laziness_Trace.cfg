CONSTANT LookAhead = 1
SPECIFICATION Spec
CONSTRAINT Report
