CONSTANTS
  N = 3
  Its = {1, 2}
  MaxSteps = 10
  SharedDrain = TRUE
  Warm = FALSE
  Hist = FALSE
SPECIFICATION Spec
INVARIANT C03
