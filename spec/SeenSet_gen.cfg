CONSTANTS
  MaxSteps = 3
  WithKeys = TRUE
  ExactOnly = FALSE
  ClearKeepsAll = FALSE
  Hist = TRUE
SPECIFICATION Spec
CONSTRAINT Emit
