CONSTANTS
  Family = "logic6"
  MaxDepth = 2
  SampleSize = 600
  NegUnionFlipsEach = FALSE
  NegNestedUnionFlips = FALSE
  FalsyObjs = {}
  OperandTruthFilter = FALSE
SPECIFICATION Spec
CONSTRAINT Emit
