CONSTANTS
  PlaceholderLeak = TRUE
  SampleSize = 700
SPECIFICATION Spec
CONSTRAINT Emit
