CONSTANTS
  Part = "value"
  MaxDepth = 1
  SampleSize = 0
  NoTypeCheck = FALSE
  ImportOnlyNotFound = FALSE
  NoClassCheck = FALSE
SPECIFICATION Spec
CONSTRAINT EmitVal
