---- MODULE SqlJoin ----
EXTENDS Naturals, Sequences, FiniteSets, TLC, Json
(***************************************************************************************************
 C07 - queries that join two variables of DIFFERENT classes (a : VA, c : VC) through relationship
 attributes, over the persisted world of harness/replay/eqlsql.py:
    VA o1..o4 with a, b and the self-referential relationship  one ;  VC c1..c4 (ci = oi.other) and
    q1..q4 with  tag  and the relationship  back  (each VA is the `back` of two VCs) ;  VM m1..m4, n1..n4 with  ref.
 Layer R: every (a, c) binding that satisfies the join condition and the filter is a solution; the
    selected variable is reported ONCE PER BINDING (a bag); the(...) succeeds iff there is exactly one
    binding.  Both the in-memory evaluation and the translated SQL must produce exactly this bag /
    this outcome (deviation CollapsePartners = the rows of one selected entity are collapsed: refuted).
 ***************************************************************************************************)
CONSTANT CollapsePartners
VARIABLES join, filter, sel
vars == <<join, filter, sel>>
As == {"o1", "o2", "o3", "o4"}
Cs == {"c1", "c2", "c3", "c4", "q1", "q2", "q3", "q4"}
AttrA == [o \in As |-> CASE o = "o1" -> <<0, 0>> [] o = "o2" -> <<0, 1>> [] o = "o3" -> <<1, 0>> [] OTHER -> <<1, 1>>]
One == [o \in As |-> CASE o = "o1" -> "o2" [] o = "o2" -> "o2" [] o = "o3" -> "o4" [] OTHER -> "o1"]
Other == [o \in As |-> CASE o = "o1" -> "c1" [] o = "o2" -> "c2" [] o = "o3" -> "c3" [] OTHER -> "c4"]
Back == [c \in Cs |-> CASE c = "c1" -> "o1" [] c = "c2" -> "o2" [] c = "c3" -> "o3" [] c = "c4" -> "o4"
                        [] c = "q1" -> "o2" [] c = "q2" -> "o3" [] c = "q3" -> "o4" [] OTHER -> "o1"]
Tag == [c \in Cs |-> CASE c \in {"c1", "c2", "c4", "q1", "q3"} -> 0 [] OTHER -> 1]      \* ci.tag = a of oi.one ; qi.tag = (i-1) % 2
\* VM objects (alternatively mapped): m1..m4 = ci.m, n1..n4 = qi.m, each with a relationship  ref  to a VA
Ms == {"m1", "m2", "m3", "m4", "n1", "n2", "n3", "n4"}
Ref == [m \in Ms |-> CASE m = "m1" -> "o2" [] m = "m2" -> "o2" [] m = "m3" -> "o1" [] m = "m4" -> "o2"
                       [] m = "n1" -> "o3" [] m = "n2" -> "o4" [] m = "n3" -> "o1" [] OTHER -> "o2"]
\* a join is between a left and a right variable: (a : VA, c : VC) or (c : VC, m : VM)
Joins == {"one_back", "back_is_a", "other_is_c", "one_a_back_a", "back_ref"}
LeftSet(j) == IF j = "back_ref" THEN Cs ELSE As
RightSet(j) == IF j = "back_ref" THEN Ms ELSE Cs
Filters == {"none", "a.a=0", "a.b=1", "c.tag=0", "c.tag=1"}
JoinOK(j, l, r) == CASE j = "one_back" -> One[l] = Back[r]                     \* a.one == c.back   (one is self-referential)
                     [] j = "back_is_a" -> Back[r] = l                         \* c.back == a       (attribute against a variable)
                     [] j = "other_is_c" -> Other[l] = r                       \* a.other == c
                     [] j = "one_a_back_a" -> AttrA[One[l]][1] = AttrA[Back[r]][1]   \* a.one.a == c.back.a  (scalar columns)
                     [] OTHER -> Back[l] = Ref[r]                              \* c.back == m.ref   (two relationships into a third class)
\* a filter constrains the VA variable or the VC variable of the pattern (not applicable -> TRUE, pattern not generated)
HasA(j) == j # "back_ref"
FilterApplies(j, f) == f = "none" \/ (f \in {"a.a=0", "a.b=1"} /\ HasA(j)) \/ f \in {"c.tag=0", "c.tag=1"}
FilterOK(j, f, l, r) == LET c == IF j = "back_ref" THEN l ELSE r IN
                       CASE f = "none" -> TRUE [] f = "a.a=0" -> AttrA[l][1] = 0 [] f = "a.b=1" -> AttrA[l][2] = 1
                         [] f = "c.tag=0" -> Tag[c] = 0 [] OTHER -> Tag[c] = 1
Bindings == { p \in LeftSet(join) \X RightSet(join) : JoinOK(join, p[1], p[2]) /\ FilterOK(join, filter, p[1], p[2]) }
Bag == IF sel = "l" THEN [o \in LeftSet(join) |-> Cardinality({ p \in Bindings : p[1] = o })]
       ELSE [c \in RightSet(join) |-> Cardinality({ p \in Bindings : p[2] = c })]
TheOutcome == IF Bindings = {} THEN "NoSolutionFound" ELSE IF Cardinality(Bindings) = 1 THEN "one" ELSE "MultipleSolutionFound"
\* layer I (what an engine that collapses the partner rows would report)
ImplBag == IF CollapsePartners THEN [x \in DOMAIN Bag |-> IF Bag[x] > 0 THEN 1 ELSE 0] ELSE Bag
Init == join \in Joins /\ filter \in Filters /\ sel \in {"l", "r"} /\ FilterApplies(join, filter)
Next == FALSE /\ UNCHANGED vars
Spec == Init /\ [][Next]_vars
SameBag == ImplBag = Bag
NonVacuous == TRUE
Emit == PrintT(ToJson([join |-> join, filter |-> filter, sel |-> sel, bag |-> Bag, the |-> TheOutcome,
                       partners |-> Cardinality(Bindings)]))
====
