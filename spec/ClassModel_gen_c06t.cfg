CONSTANTS
  MaxF = 2
  SampleSize = 3000
  ForORM = TRUE
SPECIFICATION Spec
INVARIANT RefSane
CONSTRAINT Emit
