CONSTANTS
  Model = "family"
  MaxSteps = 3
  Hist = FALSE
  AllowDie = FALSE
  TransOnlyAsserted = FALSE
  TransOutOnly = FALSE
  NoInverseOfInferred = FALSE
  DirectSuperOnly = FALSE
SPECIFICATION Spec
INVARIANT ClosureReached
PROPERTY Monotone
