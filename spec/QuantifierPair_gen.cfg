CONSTANTS
  MaxN = 3
  MaxB = 3
  SharedCounter = FALSE
SPECIFICATION Spec
CONSTRAINT Emit
