CONSTANTS
  Family = "logic"
  MaxDepth = 2
  SampleSize = 0
  NegUnionFlipsEach = FALSE
  NegNestedUnionFlips = FALSE
  FalsyObjs = {}
  OperandTruthFilter = FALSE
SPECIFICATION Spec
CONSTRAINT Emit
