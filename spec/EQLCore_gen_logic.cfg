CONSTANTS
  Family = "logic"
  MaxDepth = 2
  SampleSize = 0
  NegUnionFlipsEach = FALSE
  FalsyObjs = {}
  OperandTruthFilter = FALSE
SPECIFICATION Spec
CONSTRAINT Emit
