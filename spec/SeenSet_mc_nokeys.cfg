CONSTANTS
  MaxSteps = 5
  WithKeys = FALSE
  ExactOnly = FALSE
  ClearKeepsAll = FALSE
  Hist = FALSE
SPECIFICATION Spec
INVARIANT Agree
