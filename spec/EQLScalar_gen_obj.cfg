CONSTANT Mode = "obj"
SPECIFICATION Spec
CONSTRAINT Emit
