---- MODULE Laziness ----
EXTENDS Naturals, Sequences, FiniteSets, TLC, Json, IOUtils
(***************************************************************************************************
 C10 - queries are lazy.  Code -> spec validation of pull logs recorded by the harness (domains are
 logging one-shot generators, attributes logging properties, predicates logging callables).

 A recorded observation (one per query and number k of results pulled):
    n      = <<n1, n2>>  lengths of the domains of the query's variables (n2 = 0 for one variable)
    sat    = set of <<i, j>> index pairs (j = 0 for one variable) that satisfy the conditions
    k      = number of results obtained with next() before stopping
    pulls  = <<p1, p2>>  how many elements each domain generator had produced by then
    build  = number of user-data events (pulls, attribute reads, predicate calls) during construction
    got    = number of results actually obtained (min(k, |sat|))
 Reference: the family of demand-driven nested-loop evaluators - the loop order is NOT prescribed.
    Need(order, k) = the prefixes the nested loop in that order has pulled when it has produced k
    results (the whole domains when fewer than k exist).  An observation is justified iff for SOME
    order every domain was pulled at most Need + LookAhead elements.
 Verdict clauses:  prop:C10 build  - construction touched user data
                   prop:C10 eager  - no loop order justifies the pulls
 ***************************************************************************************************)
CONSTANT LookAhead
Obs == ndJsonDeserialize(IOEnv.TRACE_FILE)
VARIABLES tid, verdict
Min(a, b) == IF a < b THEN a ELSE b
\* positions (in nested-loop order, outer variable first) of the satisfying pairs
Outer(o, p) == IF o = 1 THEN p[1] ELSE p[2]
Inner(o, p) == IF o = 1 THEN p[2] ELSE p[1]
\* rank pairs by (outer, inner)
Before(o, p, q) == Outer(o, p) < Outer(o, q) \/ (Outer(o, p) = Outer(o, q) /\ Inner(o, p) < Inner(o, q))
KthSat(o, S, k) == CHOOSE p \in S : Cardinality({ q \in S : Before(o, q, p) }) = k - 1
\* pulls of the nested loop with outer variable o after k results: <<outer pulls, inner pulls>> mapped back to <<p1, p2>>
Need(o, t) ==
  LET S == { <<s[1], s[2]>> : s \in { t.sat[i] : i \in DOMAIN t.sat } }
      n1 == t.n[1]  n2 == t.n[2]
      nOut == IF o = 1 THEN n1 ELSE n2
      nIn == IF o = 1 THEN n2 ELSE n1
  IN IF Cardinality(S) < t.k
     THEN <<n1, n2>>                                         \* exhaustion: everything may be pulled
     ELSE LET p == KthSat(o, S, t.k)
              po == Outer(o, p)
              pi == IF po > 1 THEN nIn ELSE Inner(o, p)      \* earlier outer iterations ran the inner loop to its end
          IN IF o = 1 THEN <<po, pi>> ELSE <<pi, po>>
Justified(t) == \E o \in (IF t.n[2] = 0 THEN {1} ELSE {1, 2}) :
                   /\ t.pulls[1] <= Need(o, t)[1] + LookAhead
                   /\ t.pulls[2] <= Need(o, t)[2] + LookAhead
\* ---- queries with a universal condition for_all(y, c) over the selected variable x.  t.fa[i] = how many elements of y's
\* domain deciding the for_all for the i-th x needs: 0 = not evaluated for it (short-circuited by the surrounding connective),
\* j = the first refuting y, n2 = it holds.  Two demand-driven strategies are accepted: x outer (the for_all is decided per
\* tried x and stops at the first counter-example), or y outer (candidate x's intersected per y, stopping when none is left).
HasFA(t) == "fa" \in DOMAIN t
MaxOf(S) == IF S = {} THEN 0 ELSE CHOOSE m \in S : \A x \in S : x <= m
SatX(t) == { t.sat[i][1] : i \in DOMAIN t.sat }
KthX(t) == IF Cardinality(SatX(t)) < t.k THEN t.n[1]
           ELSE CHOOSE x \in SatX(t) : Cardinality({ q \in SatX(t) : q < x }) = t.k - 1
NeedFA(o, t) == IF o = 1 THEN <<KthX(t), MaxOf({ t.fa[i] : i \in 1..Min(t.n[1], KthX(t) + LookAhead) })>>
                ELSE <<t.n[1], MaxOf({ t.fa[i] : i \in 1..t.n[1] })>>
JustifiedFA(t) == \E o \in {1, 2} : t.pulls[1] <= NeedFA(o, t)[1] + LookAhead /\ t.pulls[2] <= NeedFA(o, t)[2] + LookAhead
Verdict(t) == IF t.build > 0 THEN "prop:C10 build phase touched user data"
              ELSE IF HasFA(t) /\ ~JustifiedFA(t) THEN "prop:C10 eager: the universally quantified domain was consumed beyond the first counter-example"
              ELSE IF ~HasFA(t) /\ ~Justified(t) THEN "prop:C10 eager: no loop order justifies the pulled prefixes"
              ELSE "accepted"
Init == tid \in 1..Len(Obs) /\ verdict = Verdict(Obs[tid])
Next == FALSE /\ UNCHANGED <<tid, verdict>>
Spec == Init /\ [][Next]_<<tid, verdict>>
Report == PrintT(ToJson([t |-> Obs[tid].name, v |-> verdict, at |-> 0]))
====
