CONSTANTS
  PlaceholderLeak = FALSE
  SampleSize = 0
SPECIFICATION Spec
INVARIANT RoundTripIso
