CONSTANTS
  MaxSteps = 3
  MaxLen = 4
  Hist = FALSE
  ClearBeforeCopy = FALSE
  CopyThroughSet = FALSE
  AliasedFirstAssignment = FALSE
  Churn = TRUE
  StaleReportedCache = FALSE
  UnhookedExtend = FALSE
SPECIFICATION Spec
INVARIANT KeepsData
INVARIANT InfersAlike
PROPERTY Monotone
