---- MODULE Quantifier ----
EXTENDS Integers, Sequences, FiniteSets, TLC, Json
(***************************************************************************************************
 C09 - result quantifiers enforce exactly the stated solution count.

 Layer R: Expected(k, lo, hi, n) - the observation sequence a client sees when it steps an
          an(..., quantification=k) iterator over a query with exactly n solutions
          (value i = "the i-th solution", then an exception class or "stop"), and TheOutcome(n).
 Layer I: the counter protocol of ResultQuantifier._evaluate__: one Produce step per solution the
          child yields (count is incremented, the incremental assertion runs, then the value is
          yielded), one Finish step when the child is exhausted (final assertion).
          Deviation switches (all FALSE = what the property needs):
            CheckOnlyAtEnd   - upper bound checked only when done (would yield more than allowed)
            StrictUpper      - "count >= upper" instead of "count > upper"
            SkipFinal        - no final assertion
 Binding: every behaviour (k, lo, hi, n, h) is replayed on the real iterator, one next() per step.
 ***************************************************************************************************)
CONSTANTS MaxN,            \* number of solutions ranges over 0..MaxN
          MinB, MaxB,      \* bounds range over MinB..MaxB (MinB = -1 exercises rejection at construction)
          CheckOnlyAtEnd, StrictUpper, SkipFinal

MinusOne == -1      \* cfg files cannot spell a negative literal

VARIABLES kind, lo, hi, n,     \* the case (chosen in Init, never changes)
          count, yielded, status,
          h                    \* history: observations of the client, one per next() (or one for construction)
vars == <<kind, lo, hi, n, count, yielded, status, h>>

Kinds == {"none", "atleast", "atmost", "exactly", "range", "the"}
Inf == 1000000                \* "no upper bound"

\* ---- construction of the constraint (SingleValueQuantificationConstraint / Range __post_init__)
Construct(k, a, b) ==
  CASE k \in {"none", "the"} -> "ok"
    [] k = "atleast" -> IF a < 0 THEN "NegativeQuantificationError" ELSE "ok"
    [] k = "atmost"  -> IF b < 0 THEN "NegativeQuantificationError" ELSE "ok"
    [] k = "exactly" -> IF a < 0 THEN "NegativeQuantificationError" ELSE "ok"
    [] k = "range"   -> IF a < 0 \/ b < 0 THEN "NegativeQuantificationError"
                        ELSE IF b < a THEN "QuantificationConsistencyError" ELSE "ok"

Lower(k, a, b) == CASE k \in {"atleast", "range", "exactly"} -> a [] k = "the" -> 1 [] OTHER -> 0
Upper(k, a, b) == CASE k \in {"atmost", "range"} -> b [] k = "exactly" -> a [] k = "the" -> 1 [] OTHER -> Inf
GreaterErr(k) == IF k = "the" THEN "MultipleSolutionFound" ELSE "GreaterThanExpectedNumberOfSolutions"
LessErr(k) == IF k = "the" THEN "NoSolutionFound" ELSE "LessThanExpectedNumberOfSolutions"

\* ---- layer R: what the client must observe
Vals(m) == [i \in 1..m |-> ToString(i)]
Expected(k, a, b, m) ==
  IF Construct(k, a, b) # "ok" THEN << Construct(k, a, b) >>
  ELSE LET L == Lower(k, a, b)  U == Upper(k, a, b) IN
       IF m > U THEN Vals(U) \o << GreaterErr(k) >>
       ELSE IF m < L THEN Vals(m) \o << LessErr(k) >>
       ELSE Vals(m) \o << "stop" >>
\* the(...) is not an iterator: it returns the value or raises
TheOutcome(m) == IF m = 0 THEN "NoSolutionFound" ELSE IF m = 1 THEN "1" ELSE "MultipleSolutionFound"

\* ---- layer I
Init == /\ kind \in Kinds
        /\ lo \in MinB..MaxB /\ hi \in MinB..MaxB
        /\ (kind \in {"none", "the"} => lo = 0 /\ hi = 0)
        /\ (kind \in {"atleast", "exactly"} => hi = 0)
        /\ (kind = "atmost" => lo = 0)
        /\ n \in 0..MaxN
        /\ count = 0 /\ yielded = 0
        /\ status = IF Construct(kind, lo, hi) = "ok" THEN "run" ELSE "rejected"
        /\ h = IF Construct(kind, lo, hi) = "ok" THEN << >> ELSE << Construct(kind, lo, hi) >>

TooMany(c) == IF StrictUpper THEN c >= Upper(kind, lo, hi) ELSE c > Upper(kind, lo, hi)

\* the child yields one more solution
Produce == /\ status = "run" /\ count < n
           /\ count' = count + 1
           /\ IF ~CheckOnlyAtEnd /\ TooMany(count + 1)
              THEN /\ status' = "greater" /\ yielded' = yielded
                   /\ h' = Append(h, GreaterErr(kind))
              ELSE /\ status' = "run" /\ yielded' = yielded + 1
                   /\ h' = Append(h, ToString(count + 1))
           /\ UNCHANGED <<kind, lo, hi, n>>

\* the child is exhausted
Finish == /\ status = "run" /\ count = n
          /\ UNCHANGED <<kind, lo, hi, n, count, yielded>>
          /\ IF CheckOnlyAtEnd /\ TooMany(count)
             THEN status' = "greater" /\ h' = Append(h, GreaterErr(kind))
             ELSE IF ~SkipFinal /\ count < Lower(kind, lo, hi)
                  THEN status' = "less" /\ h' = Append(h, LessErr(kind))
                  ELSE status' = "done" /\ h' = Append(h, "stop")

Next == Produce \/ Finish
Spec == Init /\ [][Next]_vars

Terminal == status \in {"done", "greater", "less", "rejected"}

\* ---- properties
NeverAboveUpper == status # "rejected" => yielded <= Upper(kind, lo, hi)
OutcomeMatches == Terminal => h = Expected(kind, lo, hi, n)
PrefixAlways == status # "rejected" => \A i \in 1..Len(h) : i <= Len(Expected(kind, lo, hi, n)) /\ h[i] = Expected(kind, lo, hi, n)[i]
CountMonotone == [][count' >= count /\ yielded' >= yielded]_vars
TypeOK == /\ count \in 0..MaxN /\ yielded \in 0..MaxN /\ yielded <= count
          /\ status \in {"run", "done", "greater", "less", "rejected"}

\* ---- emission of behaviours for the replayer (gen cfg only)
Emit == IF Terminal
        THEN PrintT(ToJson([kind |-> kind, lo |-> lo, hi |-> hi, n |-> n, h |-> h,
                            the |-> IF kind = "the" THEN << TheOutcome(n) >> ELSE << >>]))
        ELSE TRUE
====
