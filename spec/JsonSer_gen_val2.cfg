CONSTANTS
  Part = "value"
  MaxDepth = 2
  SampleSize = 3000
  NoTypeCheck = FALSE
  ImportOnlyNotFound = FALSE
  MroRegistryLookup = FALSE
  NoClassCheck = FALSE
SPECIFICATION Spec
CONSTRAINT EmitVal
