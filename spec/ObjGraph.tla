---- MODULE ObjGraph ----
EXTENDS Naturals, Sequences, FiniteSets, TLC, Json, Randomization
(***************************************************************************************************
 C04 / C05 - object -> DAO -> object and object -> SQL -> object round trips.

 A heap has three objects over the mapped model of harness/models/vmodel.py:
    A (and its subclass B):  one: Optional[A]   other: Optional[C]   many: List[C]
    C (and W, a mapped subclass of C whose direct base is an unmapped intermediate class):
                             back: Optional[A]  m: Optional[M]       peers: List[A]
    M (alternatively mapped through a mapping class) and its normally mapped subclass N:  ref: Optional[A]
    X (alternatively mapped; the mapping keeps the collection under another name) and its normally mapped subclass Y:  pets: List[A];
      C has x: Optional[X], parsed before back
 (0 = None; lists have up to two entries, repetitions allowed).  `root` is the object that is converted.
 Layer R: the round trip yields an ISOMORPHIC graph - same classes, same references, same list order, same
          sharing (Iso is what the replayer checks on the real objects); for SQL: one row per distinct
          reachable object in every table of its class chain (Rows), collections as identity sets.
 Layer I: from_dao - allocate + memoise, parse the relationships depth-first in mapper order, initialise,
          re-set every relationship from the memo ("circular fixes"); for an alternatively mapped object the
          memo entry is replaced by create_from_dao() only at the very end.  PlaceholderLeak = TRUE (as
          implemented): a reference taken from the memo while the mapping is still in progress keeps the
          mapping placeholder (wrong class).  TLC refutes it; `leaks` is the exact as-implemented predictor.
 ***************************************************************************************************)
CONSTANTS PlaceholderLeak, SampleSize
VARIABLES cls, rec, root
vars == <<cls, rec, root>>
Obj == 1..3
ClsChoices == { <<"A", "C", "M">>, <<"A", "B", "C">>, <<"B", "C", "M">>, <<"A", "A", "C">>, <<"A", "C", "C">>, <<"M", "A", "C">>,
                <<"C", "M", "B">>, <<"M", "C", "M">>, <<"A", "C", "N">>, <<"N", "C", "B">>, <<"N", "C", "M">>,
                <<"A", "W", "M">>, <<"W", "A", "C">>, <<"B", "W", "W">>,
                <<"C", "Y", "A">>, <<"C", "X", "A">>, <<"Y", "A", "C">>, <<"A", "C", "X">>, <<"B", "Y", "C">> }
AO(c) == { o \in Obj : c[o] \in {"A", "B"} }
CO(c) == { o \in Obj : c[o] \in {"C", "W"} }        \* W = a mapped subclass of C whose direct base is an unmapped intermediate class
MO(c) == { o \in Obj : c[o] \in {"M", "N"} }        \* N = a normally mapped subclass of the alternatively mapped M
XO(c) == { o \in Obj : c[o] \in {"X", "Y"} }        \* X = alternatively mapped, its mapping keeps `pets` under another name; Y = normally mapped subclass of X
Opt(S) == S \cup {0}
Lists(S) == { <<>> } \cup { <<a>> : a \in S } \cup { <<a, b>> : a \in S, b \in S }
Empty == [one |-> 0, other |-> 0, many |-> <<>>, x |-> 0, back |-> 0, m |-> 0, peers |-> <<>>, ref |-> 0, pets |-> <<>>]
Recs(c, o) == IF c[o] \in {"A", "B"} THEN { [Empty EXCEPT !.one = a, !.other = b, !.many = l] : a \in Opt(AO(c)), b \in Opt(CO(c)), l \in Lists(CO(c)) }
              ELSE IF c[o] \in {"C", "W"} THEN { [Empty EXCEPT !.x = xx, !.back = a, !.m = b, !.peers = l] : xx \in Opt(XO(c)), a \in Opt(AO(c)), b \in Opt(MO(c)), l \in Lists(AO(c)) }
              ELSE IF c[o] \in {"X", "Y"} THEN { [Empty EXCEPT !.pets = l] : l \in Lists(AO(c)) }
              ELSE { [Empty EXCEPT !.ref = a] : a \in Opt(AO(c)) }
Space(c) == Recs(c, 1) \X Recs(c, 2) \X Recs(c, 3) \X Obj
Init == \E c \in ClsChoices :
          \E t \in (IF SampleSize = 0 THEN Space(c) ELSE RandomSubset(SampleSize, Space(c))) :
             cls = c /\ rec = <<t[1], t[2], t[3]>> /\ root = t[4]
Next == FALSE /\ UNCHANGED vars
Spec == Init /\ [][Next]_vars

\* ordered list of <<field, position, target>> of an object, in the order the mapper lists the relationships
Refs(o) == LET r == rec[o] IN
  IF cls[o] \in {"A", "B"}
  THEN (IF r.one # 0 THEN << <<"one", 0, r.one>> >> ELSE <<>>) \o (IF r.other # 0 THEN << <<"other", 0, r.other>> >> ELSE <<>>)
       \o [i \in DOMAIN r.many |-> <<"many", i, r.many[i]>>]
  ELSE IF cls[o] \in {"C", "W"}
  THEN (IF r.x # 0 THEN << <<"x", 0, r.x>> >> ELSE <<>>) \o (IF r.back # 0 THEN << <<"back", 0, r.back>> >> ELSE <<>>) \o (IF r.m # 0 THEN << <<"m", 0, r.m>> >> ELSE <<>>)
       \o [i \in DOMAIN r.peers |-> <<"peers", i, r.peers[i]>>]
  ELSE IF cls[o] \in {"X", "Y"} THEN [i \in DOMAIN r.pets |-> <<"pets", i, r.pets[i]>>]
  ELSE (IF r.ref # 0 THEN << <<"ref", 0, r.ref>> >> ELSE <<>>)
RECURSIVE ReachFrom(_)
ReachFrom(S) == LET S2 == S \cup UNION { { Refs(o)[i][3] : i \in DOMAIN Refs(o) } : o \in S } IN IF S2 = S THEN S ELSE ReachFrom(S2)
Reachable == ReachFrom({root})
\* ---- layer I: from_dao.  st.memo[o] in none | prog | done ;  st.ph = edges <<src, field, pos>> left pointing at a placeholder
RECURSIVE Visit(_, _), Children(_, _, _, _)
Children(o, rs, i, st) == IF i > Len(rs) THEN st
                          ELSE LET t == rs[i][3]
                                   st1 == IF st.memo[t] = "none" THEN Visit(t, st) ELSE st
                               IN Children(o, rs, i + 1, st1)
Visit(o, st) == LET st0 == [st EXCEPT !.memo[o] = "prog"]
                    rs == Refs(o)
                    st1 == Children(o, rs, 1, st0)
                    leaked == { <<o, rs[i][1], rs[i][2]>> : i \in { k \in DOMAIN rs : PlaceholderLeak /\ cls[rs[k][3]] \in {"M", "X"} /\ st1.memo[rs[k][3]] = "prog" } }
                IN [st1 EXCEPT !.memo[o] = "done", !.ph = @ \cup leaked]
Result == Visit(root, [memo |-> [o \in Obj |-> "none"], ph |-> {}])
RoundTripIso == Result.ph = {}          \* the only way the result can differ from the source in this abstraction
\* ---- SQL: rows per table for the reachable objects (joined-table inheritance: a B has a row in A's and in B's table)
Rows == [VA |-> Cardinality({ o \in Reachable : cls[o] \in {"A", "B"} }),
         VB |-> Cardinality({ o \in Reachable : cls[o] = "B" }),
         VC |-> Cardinality({ o \in Reachable : cls[o] \in {"C", "W"} }),
         VW |-> Cardinality({ o \in Reachable : cls[o] = "W" }),
         VM |-> Cardinality({ o \in Reachable : cls[o] \in {"M", "N"} }),
         VN |-> Cardinality({ o \in Reachable : cls[o] = "N" }),
         VX |-> Cardinality({ o \in Reachable : cls[o] \in {"X", "Y"} }),
         VY |-> Cardinality({ o \in Reachable : cls[o] = "Y" })]
\* the self-referential single reference `one`: two objects of the hierarchy pointing at the same target (finding F09)
SharedOne == \E a, b \in Reachable : a # b /\ cls[a] \in {"A", "B"} /\ cls[b] \in {"A", "B"} /\ rec[a].one # 0 /\ rec[a].one = rec[b].one
Emit == PrintT(ToJson([cls |-> cls, rec |-> rec, root |-> root, leaks |-> Result.ph # {}, reach |-> Reachable, rows |-> Rows,
                       shared_one |-> SharedOne]))
====
