CONSTANTS
  MaxSteps = 5
  WithKeys = TRUE
  ExactOnly = FALSE
  ClearKeepsAll = TRUE
  Hist = FALSE
SPECIFICATION Spec
INVARIANT Agree
