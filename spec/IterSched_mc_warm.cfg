CONSTANTS
  N = 3
  Its = {1, 2}
  MaxSteps = 12
  SharedDrain = TRUE
  Warm = TRUE
  Hist = FALSE
SPECIFICATION Spec
INVARIANT C03
