CONSTANTS
  Family = "logic"
  MaxDepth = 2
  SampleSize = 0
  NegUnionFlipsEach = TRUE
SPECIFICATION Spec
INVARIANT EngineSound
