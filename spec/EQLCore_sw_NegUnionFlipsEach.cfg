CONSTANTS
  Family = "logic"
  MaxDepth = 2
  SampleSize = 0
  NegUnionFlipsEach = TRUE
  NegNestedUnionFlips = FALSE
  FalsyObjs = {}
  OperandTruthFilter = FALSE
SPECIFICATION Spec
INVARIANT EngineSound
