CONSTANTS
  Family = "logic"
  MaxDepth = 2
  SampleSize = 0
  NegUnionFlipsEach = TRUE
  FalsyObjs = {}
  OperandTruthFilter = FALSE
SPECIFICATION Spec
INVARIANT EngineSound
