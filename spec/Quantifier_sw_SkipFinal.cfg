CONSTANTS
  MaxN = 6
  MinB <- MinusOne
  MaxB = 5
  CheckOnlyAtEnd = FALSE
  StrictUpper = FALSE
  SkipFinal = TRUE
SPECIFICATION Spec
INVARIANT TypeOK
INVARIANT NeverAboveUpper
INVARIANT OutcomeMatches
INVARIANT PrefixAlways
PROPERTY CountMonotone
