CONSTANTS
  N = 3
  Its = {1, 2}
  MaxSteps = 8
  SharedDrain = TRUE
  Warm = FALSE
  Hist = TRUE
SPECIFICATION Spec
CONSTRAINT Emit
