CONSTANTS
  N = 0
  Its = {1, 2}
  MaxSteps = 6
  SharedDrain = TRUE
  Warm = FALSE
  Hist = TRUE
SPECIFICATION Spec
CONSTRAINT Emit
