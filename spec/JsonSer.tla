---- MODULE JsonSer ----
EXTENDS Naturals, Sequences, FiniteSets, TLC, Json, Randomization
(***************************************************************************************************
 C18 / C19 - polymorphic JSON (de)serialisation.

 Part 1 (C19): resolution of the type tag as a stage machine
      Get -> TypeCheck -> Split -> Import -> GetAttr -> ClassCheck -> Dispatch
   with one failure transition per stage.  A tag is described by what each stage will find (its class).
   Outcome(tagclass) is the documented error of the first failing stage, or "instance".
   Deviation switches (TRUE = before the fix; each refuted by TLC): NoTypeCheck (a non-string tag reaches Split
   and escapes as AttributeError), ImportOnlyNotFound (only ModuleNotFoundError is mapped: an empty module name
   or a broken module escapes), NoClassCheck (a non-class reaches issubclass and escapes as TypeError), MroRegistryLookup (a
   subclass of a registered type is deserialised by its base's function into an instance of the base class).
 Part 2 (C18): the value grammar  None | bool | int | float | str | uuid | registered third-party type |
   object of class A, B <: A, C <: B (or of a second class named A in another module) with two value fields | list of values |
   a list holding the same sub-value object twice;  Tag(v); the round trip through JSON
   text is the identity with exact classes.  TLC enumerates the SHAPES (leaf tokens are concretised by the harness).
 ***************************************************************************************************)
CONSTANTS Part, MaxDepth, SampleSize, NoTypeCheck, ImportOnlyNotFound, NoClassCheck, MroRegistryLookup
VARIABLES stage, tag, outcome, val
vars == <<stage, tag, outcome, val>>

TagClasses == {"missing", "null", "empty_string", "zero", "false", "empty_list", "empty_dict",
               "true", "number", "list", "dict",
               "no_dot", "leading_dot", "trailing_dot", "double_dot", "unknown_module", "broken_module",
               "module_without_attribute", "attr_function", "attr_module", "attr_typevar", "attr_constant", "attr_abstract_base",
               "attr_plain_class", "attr_subclass_of_registered", "attr_serializable_class", "attr_registered_class"}
Falsy == {"missing", "null", "empty_string", "zero", "false", "empty_list", "empty_dict"}
NonString == {"true", "number", "list", "dict"}
\* what importlib does with the module part
ImportResult(t) == CASE t \in {"leading_dot"} -> "ValueError"
                     [] t \in {"trailing_dot", "double_dot", "unknown_module"} -> "ModuleNotFoundError"
                     [] t = "broken_module" -> "ImportError"
                     [] OTHER -> "module"
Documented == {"MissingTypeError", "InvalidTypeFormatError", "UnknownModuleError", "ClassNotFoundError",
               "ClassNotDeserializableError", "instance"}
\* layer R: the documented outcome
Expected(t) == CASE t \in Falsy -> "MissingTypeError"
                 [] t \in NonString \cup {"no_dot"} -> "InvalidTypeFormatError"
                 [] ImportResult(t) # "module" -> "UnknownModuleError"
                 [] t = "module_without_attribute" -> "ClassNotFoundError"
                 [] t \in {"attr_function", "attr_module", "attr_typevar", "attr_constant", "attr_abstract_base", "attr_plain_class",
                           "attr_subclass_of_registered"} -> "ClassNotDeserializableError"
                 [] OTHER -> "instance"
\* layer I: the pipeline of from_json, one action per stage
Init == /\ Part = "tag" /\ stage = "Get" /\ tag \in TagClasses /\ outcome = "-" /\ val = <<>>
Fail(o) == stage' = "Done" /\ outcome' = o /\ UNCHANGED <<tag, val>>
Go(s) == stage' = s /\ UNCHANGED <<tag, outcome, val>>
Get == stage = "Get" /\ IF tag \in Falsy THEN Fail("MissingTypeError") ELSE Go("TypeCheck")
TypeCheck == stage = "TypeCheck" /\ IF tag \in NonString /\ ~NoTypeCheck THEN Fail("InvalidTypeFormatError") ELSE Go("Split")
Split == stage = "Split" /\ IF tag \in NonString THEN Fail("AttributeError")            \* only reachable with NoTypeCheck
                            ELSE IF tag = "no_dot" THEN Fail("InvalidTypeFormatError") ELSE Go("Import")
Import == stage = "Import" /\ LET r == ImportResult(tag) IN
            IF r = "module" THEN Go("GetAttr")
            ELSE IF r = "ModuleNotFoundError" \/ ~ImportOnlyNotFound THEN Fail("UnknownModuleError") ELSE Fail(r)
GetAttr == stage = "GetAttr" /\ IF tag = "module_without_attribute" THEN Fail("ClassNotFoundError") ELSE Go("ClassCheck")
\* attr_constant = a module-level value that is no class at all (a string, a tuple, a number);
\* attr_abstract_base = SubclassJSONSerializer itself, which declares the protocol but cannot be deserialised
ClassCheck == stage = "ClassCheck" /\ IF tag \in {"attr_function", "attr_module", "attr_typevar", "attr_constant"}
                                      THEN (IF NoClassCheck THEN Fail("TypeError") ELSE Fail("ClassNotDeserializableError"))
                                      ELSE Go("Dispatch")
\* a class that is neither a SubclassJSONSerializer nor registered is not deserialisable - also when one of its bases is registered
\* (MroRegistryLookup: the registry is searched along the MRO and the base's function builds an instance of the BASE class)
Dispatch == stage = "Dispatch" /\ IF tag \in {"attr_plain_class", "attr_abstract_base"} THEN Fail("ClassNotDeserializableError")
                                  ELSE IF tag = "attr_subclass_of_registered"
                                  THEN (IF MroRegistryLookup THEN Fail("instance_of_base_class") ELSE Fail("ClassNotDeserializableError"))
                                  ELSE Fail("instance")
TagNext == Get \/ TypeCheck \/ Split \/ Import \/ GetAttr \/ ClassCheck \/ Dispatch
OnlyDocumented == stage = "Done" => outcome \in Documented
RightOutcome == stage = "Done" => outcome = Expected(tag)

\* ---------------- part 2: value shapes
Leaves == { <<"none">>, <<"true">>, <<"false">>, <<"int">>, <<"float">>, <<"str">>, <<"uuid">>, <<"date">>, <<"datetime">> }
ClassesJ == {"A", "B", "C", "A2", "It", "D1", "MD"}      \* A2 = a class named A in another module; It = a subclass of A that is iterable (defines __iter__);
                                                    \* D1 = below a class that overrides __init_subclass__ without calling super(); MD = made by dataclasses.make_dataclass
Mk(t) == IF t[1] = "dup" THEN <<"dup", t[2]>>           \* a list that holds the SAME sub-value object twice (aliasing, no cycle)
         ELSE IF t[1] = "list0" THEN <<"list", <<>> >>
         ELSE IF t[1] = "list1" THEN <<"list", <<t[2]>> >>
         ELSE IF t[1] = "list2" THEN <<"list", <<t[2], t[3]>> >>
         ELSE <<"obj", t[1], t[2], t[3]>>
RECURSIVE Values(_)
Values(d) == IF d = 0 THEN Leaves
             ELSE LET S == Values(d - 1) IN S \cup { Mk(t) : t \in ({"list0", "list1", "list2", "dup"} \cup ClassesJ) \X S \X S }
\* fully qualified tag every object dict must carry; leaves and lists carry none
TagOf(v) == IF v[1] = "obj" THEN v[2] ELSE IF v[1] \in {"uuid", "date", "datetime"} THEN v[1] ELSE "-"
ValInit == /\ Part = "value" /\ stage = "Done" /\ tag = "-" /\ outcome = "-"
           /\ val \in (IF SampleSize = 0 THEN Values(MaxDepth)
                       ELSE LET K == {"list0", "list1", "list2", "dup"} \cup ClassesJ
                                \* the sub-values are themselves a random sample (the full product is too large to build)
                                Sub1 == Leaves \cup RandomSubset(100, Values(1))
                                Sub2 == Leaves \cup { Mk(u) : u \in RandomSubset(120, K \X Sub1 \X Sub1) }
                                S == IF MaxDepth <= 2 THEN Sub1 ELSE Sub2
                            IN { Mk(t) : t \in RandomSubset(SampleSize, K \X S \X S) })
InitAll == Init \/ ValInit
Next == (Part = "tag" /\ TagNext)
Spec == InitAll /\ [][Next]_vars
EmitTag == IF Part = "tag" /\ stage = "Done" THEN PrintT(ToJson([tag |-> tag, expected |-> Expected(tag)])) ELSE TRUE
EmitVal == IF Part = "value" THEN PrintT(ToJson([v |-> val])) ELSE TRUE
====
