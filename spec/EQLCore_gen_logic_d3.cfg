CONSTANTS
  Family = "logic"
  MaxDepth = 3
  SampleSize = 3000
  NegUnionFlipsEach = FALSE
  NegNestedUnionFlips = FALSE
  FalsyObjs = {}
  OperandTruthFilter = FALSE
SPECIFICATION Spec
CONSTRAINT Emit
