CONSTANTS
  Family = "optional"
  MaxDepth = 2
  SampleSize = 1500
  NegUnionFlipsEach = FALSE
  NegNestedUnionFlips = FALSE
  FalsyObjs = {}
  OperandTruthFilter = FALSE
SPECIFICATION Spec
CONSTRAINT Emit
