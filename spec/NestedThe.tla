---- MODULE NestedThe ----
EXTENDS Naturals, Sequences, FiniteSets, TLC, Json
(***************************************************************************************************
 C09 - the(...) nested in an enclosing query and correlated with it.

 The enclosing query enumerates its bindings b = 1..Len(counts) in domain order; counts[b] is the number
 of solutions the description of the nested the(...) has UNDER binding b.  The client pulls results one
 by one.  Layer R: the exactly-one rule is enforced per binding - a binding with exactly one solution
 contributes one row (built from THAT binding's solution), the first binding with none / several ends
 the evaluation with NoSolutionFound / MultipleSolutionFound at the pull that reaches it.  The statement
 does not say whether a binding with several solutions may hand its first solution downstream before the
 second one is found (the evaluation streams, exactly as an(..., quantification=Exactly(1)) yields one
 result and raises at the next pull): both readings are accepted (Allowed); Streaming = TRUE is as implemented.
 Layer I: one Step per binding of the enclosing query (the nested the(...) is re-evaluated under the
 bindings it receives).  Deviation switch MemoFirst (not as implemented; TLC refutes it): the first
 successful resolution is reused for every later binding (solution and count no longer depend on it).
 ***************************************************************************************************)
CONSTANTS MaxBindings, MaxCount, MemoFirst, Streaming
VARIABLES counts, pos, h, status, memo
vars == <<counts, pos, h, status, memo>>
CountSeqs == UNION { [1..m -> 0..MaxCount] : m \in 0..MaxBindings }
Init == counts \in CountSeqs /\ pos = 1 /\ h = <<>> /\ status = "run" /\ memo = 0
Outcome(c) == IF c = 0 THEN "NoSolutionFound" ELSE IF c = 1 THEN "row" ELSE "MultipleSolutionFound"
\* h entries: <<"row", binding, binding whose solution was used>> | <<exception>> | <<"stop">>
Step == /\ status = "run" /\ pos <= Len(counts)
        /\ IF MemoFirst /\ memo # 0
           THEN h' = Append(h, <<"row", pos, memo>>) /\ UNCHANGED <<memo, status>>
           ELSE IF counts[pos] = 1
                THEN h' = Append(h, <<"row", pos, pos>>) /\ memo' = (IF memo = 0 THEN pos ELSE memo) /\ UNCHANGED status
                ELSE IF Streaming /\ counts[pos] > 1 /\ status = "run" /\ (h = <<>> \/ h[Len(h)] # <<"row", pos, pos>>)
                THEN h' = Append(h, <<"row", pos, pos>>) /\ UNCHANGED <<memo, status>>          \* first solution streams through
                ELSE h' = Append(h, <<Outcome(counts[pos])>>) /\ status' = "raised" /\ UNCHANGED memo
        /\ pos' = (IF Streaming /\ counts[pos] > 1 /\ status' = "run" /\ ~(MemoFirst /\ memo # 0) THEN pos ELSE pos + 1) /\ UNCHANGED counts
Finish == /\ status = "run" /\ pos > Len(counts) /\ h' = Append(h, <<"stop">>) /\ status' = "done" /\ UNCHANGED <<counts, pos, memo>>
Next == Step \/ Finish
Spec == Init /\ [][Next]_vars
\* ---- R
RECURSIVE Expected(_, _)
Expected(cs, b) == IF b > Len(cs) THEN << <<"stop">> >>
                   ELSE IF cs[b] = 1 THEN << <<"row", b, b>> >> \o Expected(cs, b + 1)
                   ELSE << <<Outcome(cs[b])>> >>
RECURSIVE ExpectedStreaming(_, _)
ExpectedStreaming(cs, b) == IF b > Len(cs) THEN << <<"stop">> >>
                            ELSE IF cs[b] = 1 THEN << <<"row", b, b>> >> \o ExpectedStreaming(cs, b + 1)
                            ELSE IF cs[b] = 0 THEN << <<Outcome(0)>> >> ELSE << <<"row", b, b>>, <<Outcome(cs[b])>> >>
Allowed == { Expected(counts, 1), ExpectedStreaming(counts, 1) }
IsPrefix(s, t) == Len(s) <= Len(t) /\ \A i \in 1..Len(s) : s[i] = t[i]
PerBinding == \E t \in Allowed : IsPrefix(h, t)
Complete == status # "run" => h \in Allowed
TypeOK == pos \in 1..(MaxBindings + 1) /\ status \in {"run", "raised", "done"}
Emit == IF status # "run" THEN PrintT(ToJson([counts |-> counts, h |-> h, allowed |-> Allowed])) ELSE TRUE
====
