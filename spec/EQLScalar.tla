---- MODULE EQLScalar ----
EXTENDS Integers, Sequences, FiniteSets, TLC, Json
(***************************************************************************************************
 C02 / C01 - domains whose elements are VALUES: plain integers, and value objects that hash and compare
 by value.  Elements e1..e5 carry the value v: -1, -2, 0, 0, 1 (CPython: hash(-1) = hash(-2); e3 and e4
 are equal-but-distinct twins; 0 is falsy).  Mode "int": the domain holds the integers themselves
 (e3/e4 collapse to one element: the domains are duplicate free); mode "obj": it holds one value object
 per element (a dataclass with value equality and value hash).
 Layer R: every element of a domain is a candidate of its own; a solution is an assignment of ELEMENTS;
 the bag of results has one entry per satisfying assignment - every time the query object is evaluated.
 ***************************************************************************************************)
CONSTANT Mode
VARIABLE cond
Elems == IF Mode = "int" THEN {"e1", "e2", "e3", "e5"} ELSE {"e1", "e2", "e3", "e4", "e5"}
Val == [e \in {"e1", "e2", "e3", "e4", "e5"} |-> CASE e = "e1" -> -1 [] e = "e2" -> -2 [] e = "e3" -> 0 [] e = "e4" -> 0 [] OTHER -> 1]
V(v) == <<"val", v>>          \* the value of the variable: the integer itself / the attribute v of the value object
L(c) == <<"lit", c>>
Cmp(op, s, t) == <<"cmp", op, s, t>>
Atoms == { Cmp("lt", V("x"), L(0)), Cmp("eq", V("x"), V("y")), Cmp("lt", V("x"), V("y")), Cmp("ge", V("x"), L(0)),
           Cmp("ne", V("x"), V("y")), Cmp("eq", V("y"), L(0)), <<"same", "x", "y">> }        \* same = x == y on the elements themselves
Conds == Atoms \cup { <<"not", p>> : p \in Atoms } \cup { <<"and", p, q>> : p \in Atoms, q \in Atoms } \cup { <<"or", p, q>> : p \in Atoms, q \in Atoms }
TermVal(t, g) == IF t[1] = "lit" THEN t[2] ELSE Val[g[t[2]]]
Apply(op, l, r) == CASE op = "eq" -> l = r [] op = "ne" -> l # r [] op = "lt" -> l < r [] OTHER -> l >= r
RECURSIVE Sat(_, _)
Sat(e, g) == CASE e[1] = "cmp" -> Apply(e[2], TermVal(e[3], g), TermVal(e[4], g))
               [] e[1] = "same" -> Val[g[e[2]]] = Val[g[e[3]]]            \* value equality of the elements
               [] e[1] = "and" -> Sat(e[2], g) /\ Sat(e[3], g)
               [] e[1] = "or" -> Sat(e[2], g) \/ Sat(e[3], g)
               [] OTHER -> ~Sat(e[2], g)
RECURSIVE VarsOf(_)
VarsOf(e) == CASE e[1] = "lit" -> {} [] e[1] = "val" -> {e[2]} [] e[1] = "cmp" -> VarsOf(e[3]) \cup VarsOf(e[4])
               [] e[1] = "same" -> {e[2], e[3]} [] e[1] = "not" -> VarsOf(e[2]) [] OTHER -> VarsOf(e[2]) \cup VarsOf(e[3])
SeqToSet(s) == { s[i] : i \in DOMAIN s }
Doms == IF Mode = "int" THEN { <<"e1", "e2", "e3", "e5">>, <<"e5", "e2", "e1">> }
        ELSE { <<"e1", "e2", "e3", "e4", "e5">>, <<"e4", "e2", "e3">> }
SameVars(e) == e[1] # "or" \/ VarsOf(e[2]) = VarsOf(e[3])
\* selection: x alone when only x occurs, else (x, y)
Two(e) == "y" \in VarsOf(e)
Rows(e, dx, dy) == IF Two(e) THEN { <<g["x"], g["y"]>> : g \in { h \in [{"x", "y"} -> Elems] : h["x"] \in SeqToSet(dx) /\ h["y"] \in SeqToSet(dy) /\ Sat(e, h) } }
                   ELSE { <<g["x"]>> : g \in { h \in [{"x"} -> Elems] : h["x"] \in SeqToSet(dx) /\ Sat(e, h) } }
Init == cond \in { c \in Conds : SameVars(c) /\ "x" \in VarsOf(c) }
Next == FALSE /\ UNCHANGED cond
Spec == Init /\ [][Next]_cond
Emit == PrintT(ToJson([cond |-> cond, mode |-> Mode, two |-> Two(cond),
                       cases |-> { [dx |-> dx, dy |-> dy, exp |-> Rows(cond, dx, dy)] : dx \in Doms, dy \in Doms }]))
====
