CONSTANTS
  MaxObj = 3
  MaxSteps = 6
  CreateClasses = {"P"}
  QueryClasses = {"T"}
  AllowClear = FALSE
  AllowRelate = FALSE
  AllowQueryX = TRUE
  AllowSweep = FALSE
  AllowDeclare = FALSE
  AllowDetach = TRUE
  AllowInfer = FALSE
  CopyModes = {}
  UnregisteredModes = {}
  Hist = TRUE
  PopIdOfNone = FALSE
  StaleRelationIndex = FALSE
  DupSubclassList = FALSE
  StrongExprTable = TRUE
SPECIFICATION Spec
CONSTRAINT Emit
