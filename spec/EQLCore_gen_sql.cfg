CONSTANTS
  Family = "sql"
  MaxDepth = 2
  SampleSize = 6000
  NegUnionFlipsEach = FALSE
  NegNestedUnionFlips = FALSE
  FalsyObjs = {}
  OperandTruthFilter = FALSE
SPECIFICATION Spec
CONSTRAINT Emit
