CONSTANTS
  Family = "sql"
  MaxDepth = 1
  SampleSize = 0
  NegUnionFlipsEach = FALSE
  NegNestedUnionFlips = FALSE
  FalsyObjs = {}
  OperandTruthFilter = FALSE
SPECIFICATION Spec
CONSTRAINT Emit
