CONSTANTS
  MaxObj = 3
  MaxSteps = 6
  CreateClasses = {"P"}
  QueryClasses = {"P","T"}
  AllowClear = FALSE
  AllowRelate = FALSE
  AllowQueryX = TRUE
  AllowSweep = FALSE
  AllowDeclare = FALSE
  AllowDetach = FALSE
  AllowInfer = TRUE
  CopyModes = {}
  UnregisteredModes = {}
  Hist = TRUE
  PopIdOfNone = FALSE
  StaleRelationIndex = FALSE
  DupSubclassList = FALSE
  StrongExprTable = TRUE
SPECIFICATION Spec
CONSTRAINT Emit
