CONSTANTS
  Model = "univ"
  MaxSteps = 3
  Hist = FALSE
  AllowDie = FALSE
  TransOnlyAsserted = FALSE
  TransOutOnly = TRUE
  NoInverseOfInferred = FALSE
  DirectSuperOnly = FALSE
SPECIFICATION Spec
INVARIANT ClosureReached
