CONSTANTS
  Family = "poset"
  MaxDepth = 2
  SampleSize = 5000
  NegUnionFlipsEach = FALSE
  NegNestedUnionFlips = FALSE
  FalsyObjs = {}
  OperandTruthFilter = FALSE
SPECIFICATION Spec
CONSTRAINT Emit
