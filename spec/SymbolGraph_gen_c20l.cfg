CONSTANTS
  MaxObj = 4
  MaxSteps = 8
  CreateClasses = {"P","C"}
  QueryClasses = {}
  AllowClear = FALSE
  AllowRelate = TRUE
  AllowQueryX = FALSE
  AllowSweep = TRUE
  AllowDeclare = FALSE
  AllowDetach = FALSE
  AllowInfer = FALSE
  CopyModes = {}
  UnregisteredModes = {}
  Hist = TRUE
  PopIdOfNone = FALSE
  StaleRelationIndex = FALSE
  DupSubclassList = FALSE
  StrongExprTable = FALSE
SPECIFICATION Spec
CONSTRAINT Emit
