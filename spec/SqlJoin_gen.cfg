CONSTANT CollapsePartners = FALSE
SPECIFICATION Spec
CONSTRAINT Emit
