CONSTANTS
  MaxObj = 3
  MaxSteps = 7
  CreateClasses = {"P","C"}
  QueryClasses = {"P","C"}
  AllowClear = FALSE
  AllowRelate = TRUE
  AllowQueryX = TRUE
  AllowSweep = FALSE
  AllowDeclare = FALSE
  AllowDetach = FALSE
  AllowInfer = FALSE
  CopyModes = {}
  UnregisteredModes = {}
  Hist = TRUE
  PopIdOfNone = FALSE
  StaleRelationIndex = FALSE
  DupSubclassList = FALSE
  StrongExprTable = TRUE
SPECIFICATION Spec
CONSTRAINT Emit
