CONSTANTS
  Family = "quant"
  MaxDepth = 1
  SampleSize = 0
  NegUnionFlipsEach = FALSE
  FalsyObjs = {}
  OperandTruthFilter = FALSE
SPECIFICATION Spec
CONSTRAINT Emit
