CONSTANTS
  Model = "univ"
  MaxSteps = 4
  Hist = FALSE
  AllowDie = FALSE
  TransOnlyAsserted = FALSE
  TransOutOnly = FALSE
  NoInverseOfInferred = FALSE
  DirectSuperOnly = FALSE
SPECIFICATION Spec
INVARIANT ClosureReached
PROPERTY Monotone
