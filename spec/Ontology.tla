---- MODULE Ontology ----
EXTENDS Naturals, Sequences, FiniteSets, TLC, Json
(***************************************************************************************************
 C15 (and the suffix of C14) - inference of property descriptors.

 A fact is <<property, source, target>>.  Two schemas (CONSTANT Model):
   "univ"   the repository's university model: works_for [= member_of, head_of [= works_for (head_of
            lives on the CEO role, its super-properties on the role taker), members = member_of^-1,
            sub_organization_of transitive.
   "family" a /verif model: ancestor_of transitive, [= related_to, inverse descendant_of; knows = known_by^-1;
            best_friend_of [= friend_of [= knows and mentor_of [= guide_of [= related_to, where no instance has a
            friend_of / guide_of field (a skipped level of the hierarchy); teaches [= knows with its OWN inverse taught_by [= known_by.
   "geo"    a /verif model: located_in transitive WITHOUT an inverse, directly_in [= located_in (declared as a descriptor
            class deriving from LocatedIn, it inherits the TransitiveProperty mixin: as declared, it is transitive as well);
            the instances r1 and r3 are instances of a subclass (City) of the class that declares the fields (Region) -
            the semantics do not care.
 Layer R: Closure(asserted) = least fixpoint of the declared semantics; FieldsOf(facts).
 Layer I: AddRel - the recursion of PropertyDescriptorRelation.add_to_graph: stop at an existing edge,
          else add, then super-properties (same instance, then role taker), then the inverse, then the
          transitive consequences through the target's outgoing and the source's incoming edges.
          Deviation switches (FALSE = what the property needs; each TRUE is refuted by TLC):
            TransOnlyAsserted  transitive expansion only for asserted (not inferred) relations
            TransOutOnly       only the outgoing direction of the transitive expansion
            NoInverseOfInferred  inverse only for asserted relations
            DirectSuperOnly    only the closest super-property is inferred
 ***************************************************************************************************)
CONSTANTS Model, MaxSteps, Hist,
          AllowDie,          \* part of the population may die between assertions (C14: "whatever lived and died before")
          TransOnlyAsserted, TransOutOnly, NoInverseOfInferred, DirectSuperOnly

VARIABLES asserted, edges, steps, h, gone
vars == <<asserted, edges, steps, h, gone>>

\* ---------------- schema
Univ == Model = "univ"
Geo == Model = "geo"
Persons == IF Univ THEN {"p1", "p2"} ELSE IF Geo THEN {"r1", "r2", "r3", "r4"} ELSE {"a", "b", "c", "d"}
Companies == IF Univ THEN {"c1", "c2", "c3"} ELSE {}
Roles == IF Univ THEN {"ceo"} ELSE {}
Taker == [r \in Roles |-> "p1"]
Inst == Persons \cup Companies \cup Roles
FieldsOfInst(x) == IF Univ THEN (IF x \in Persons THEN {"works_for", "member_of"}
                                 ELSE IF x \in Companies THEN {"members", "sub"} ELSE {"head_of"})
                   ELSE IF Geo THEN {"located_in", "directly_in"}
                   ELSE {"related_to", "ancestor_of", "descendant_of", "knows", "known_by", "best_friend_of", "mentor_of", "teaches", "taught_by"}
\* super-properties that have a field on the same instance / on the role taker: <<property, distance in the hierarchy>>
SuperSame(p) == IF Univ THEN (IF p = "works_for" THEN << <<"member_of", 1>> >> ELSE <<>>)
                ELSE IF Geo THEN (IF p = "directly_in" THEN << <<"located_in", 1>> >> ELSE <<>>)
                ELSE (CASE p = "ancestor_of" -> << <<"related_to", 1>> >>
                        [] p = "best_friend_of" -> << <<"knows", 2>> >>
                        [] p = "mentor_of" -> << <<"related_to", 2>> >>
                        [] p = "teaches" -> << <<"knows", 1>> >>            \* teaches [= knows and taught_by [= known_by, and the two are
                        [] p = "taught_by" -> << <<"known_by", 1>> >>       \* each other's inverse: a sub-property that declares its OWN inverse
                        [] OTHER -> <<>>)
SuperTaker(p) == IF Univ /\ p = "head_of" THEN << <<"works_for", 1>>, <<"member_of", 2>> >> ELSE <<>>
Inv(p) == IF Univ THEN (CASE p \in {"member_of", "works_for", "head_of"} -> "members" [] p = "members" -> "member_of" [] OTHER -> "none")
          ELSE IF Geo THEN "none"
          ELSE (CASE p = "ancestor_of" -> "descendant_of" [] p = "descendant_of" -> "ancestor_of"
                  [] p \in {"knows", "best_friend_of"} -> "known_by" [] p = "known_by" -> "knows"
                  [] p = "teaches" -> "taught_by" [] p = "taught_by" -> "teaches" [] OTHER -> "none")
Trans(p) == IF Univ THEN p = "sub" ELSE IF Geo THEN TRUE ELSE p = "ancestor_of"
SingleValued(p) == p \in {"works_for", "head_of"}
\* the inverse is stored on the target, or on the target's role taker when the target itself has no such field
InvSubject(f) == IF f[3] \in Roles /\ Inv(f[1]) \notin FieldsOfInst(f[3]) THEN Taker[f[3]] ELSE f[3]

Assertable == IF Univ
  THEN { <<"works_for", p, c>> : p \in Persons, c \in Companies } \cup { <<"member_of", p, c>> : p \in Persons, c \in Companies }
       \cup { <<"members", c, p>> : c \in Companies, p \in Persons \cup Roles }
       \cup { <<"head_of", r, c>> : r \in Roles, c \in Companies }
       \cup { t \in { <<"sub", x, y>> : x \in Companies, y \in Companies } : t[2] # t[3] }
  ELSE IF Geo THEN { t \in { <<q, x, y>> : q \in {"located_in", "directly_in"}, x \in Persons, y \in Persons } : t[2] # t[3] }
  ELSE { t \in { <<q, x, y>> : q \in {"ancestor_of", "descendant_of", "related_to", "mentor_of"}, x \in Persons, y \in Persons } : t[2] # t[3] }
       \cup { t \in { <<q, x, y>> : q \in {"knows", "known_by", "best_friend_of", "teaches", "taught_by"}, x \in {"a", "b"}, y \in {"a", "b", "c"} } : t[2] # t[3] }

\* ---------------- layer R: closure
Of(F, p) == { f \in F : f[1] = p }
SeqSet(s) == { s[i] : i \in DOMAIN s }
StepR(F) == F
   \cup UNION { { <<q[1], f[2], f[3]>> : q \in SeqSet(SuperSame(f[1])) } : f \in F }
   \cup UNION { { <<q[1], Taker[f[2]], f[3]>> : q \in SeqSet(SuperTaker(f[1])) } : f \in { g \in F : g[2] \in Roles } }
   \cup { <<Inv(f[1]), InvSubject(f), f[2]>> : f \in { g \in F : Inv(g[1]) # "none" } }
   \cup UNION { { <<f[1], f[2], g[3]>> : g \in { y \in F : y[1] = f[1] /\ y[2] = f[3] } } : f \in { x \in F : Trans(x[1]) } }
RECURSIVE Closure(_)
Closure(F) == LET G == StepR(F) IN IF G = F THEN F ELSE Closure(G)

\* ---------------- layer I: the recursion of add_to_graph.  asrt = TRUE for the relation the user wrote.
RECURSIVE AddRel(_, _, _), FoldSeq(_, _), FoldSet(_, _)
FoldSeq(E, s) == IF s = <<>> THEN E ELSE FoldSeq(AddRel(E, s[1], FALSE), Tail(s))
FoldSet(E, S) == IF S = {} THEN E ELSE LET x == CHOOSE y \in S : TRUE IN FoldSet(AddRel(E, x, FALSE), S \ {x})
Take(s) == IF DirectSuperOnly THEN SelectSeq(s, LAMBDA q : q[2] = 1) ELSE s
AddRel(E, e, asrt) ==
  IF e \in E THEN E
  ELSE LET E1 == E \cup {e}
           sup == [i \in DOMAIN Take(SuperSame(e[1])) |-> <<Take(SuperSame(e[1]))[i][1], e[2], e[3]>>]
           supT == IF e[2] \in Roles THEN [i \in DOMAIN Take(SuperTaker(e[1])) |-> <<Take(SuperTaker(e[1]))[i][1], Taker[e[2]], e[3]>>] ELSE <<>>
           E2 == FoldSeq(E1, sup \o supT)
           E3 == IF Inv(e[1]) # "none" /\ (asrt \/ ~NoInverseOfInferred)
                 THEN AddRel(E2, <<Inv(e[1]), InvSubject(e), e[2]>>, FALSE) ELSE E2
           doTrans == Trans(e[1]) /\ (asrt \/ ~TransOnlyAsserted)
           outs == { <<e[1], e[2], x[3]>> : x \in { y \in E3 : y[1] = e[1] /\ y[2] = e[3] } }
           E4 == IF doTrans THEN FoldSet(E3, outs) ELSE E3
           ins == { <<e[1], x[2], e[3]>> : x \in { y \in E4 : y[1] = e[1] /\ y[3] = e[2] } }
       IN IF doTrans /\ ~TransOutOnly THEN FoldSet(E4, ins) ELSE E4

\* ---------------- behaviours: one assertion per step (single assignment, append or add - one new element)
Init == asserted = {} /\ edges = {} /\ steps = 0 /\ h = <<>> /\ gone = {}
\* a single-valued field is written at most once per subject (a second write would replace the value while the
\* monotone fact base keeps both relations - outside what C15 states)
WellFormed(f) == SingleValued(f[1]) => \A g \in asserted : ~(g[1] = f[1] /\ g[2] = f[2])
AssertFact(f) == /\ f \notin asserted /\ WellFormed(f) /\ f[2] \notin gone /\ f[3] \notin gone /\ UNCHANGED gone
             /\ asserted' = asserted \cup {f}
             /\ edges' = AddRel(edges, f, TRUE)
             /\ h' = IF Hist THEN Append(h, [f |-> f, facts |-> Closure(asserted \cup {f})]) ELSE h
\* Die(D): the program drops its references to the instances D, they are reclaimed and the registry is swept.  Only instances that
\* no survivor refers to can die (a fact <<p, s, t>> is a reference from s to t held in s's field).  What the survivors hold
\* stays: every fact among survivors - asserted or inferred - is from now on a given; facts about the dead are gone.
CanDie(D) == /\ D # {} /\ D \cap gone = {}
             /\ (\A e \in edges : e[3] \in D => e[2] \in D)
             /\ (\A r \in Roles : Taker[r] \in D => r \in D)          \* a role holds its taker
Die(D) == /\ AllowDie /\ CanDie(D) /\ \E e \in edges : e[2] \in D \/ e[3] \in D      \* only deaths that matter
          /\ gone' = gone \cup D
          /\ asserted' = { f \in Closure(asserted) : f[2] \notin D /\ f[3] \notin D }
          /\ edges' = { e \in edges : e[2] \notin D /\ e[3] \notin D }
          /\ h' = IF Hist THEN Append(h, [f |-> <<"die", "-", "-">>, die |-> D, facts |-> asserted']) ELSE h
Next == steps < MaxSteps /\ steps' = steps + 1 /\ (\/ \E f \in Assertable : AssertFact(f)
                                                   \/ \E D \in (SUBSET Inst) : Cardinality(D) <= 2 /\ Die(D))
Spec == Init /\ [][Next]_vars

\* ---------------- properties
ClosureReached == edges = Closure(asserted)            \* I => R at every quiescent point, for every order
Monotone == [][gone' # gone \/ edges \subseteq edges']_vars
OrderIndependent == TRUE                                \* implied: Closure depends on the set `asserted` only
Emit == IF Hist /\ steps = MaxSteps THEN PrintT(ToJson(h)) ELSE TRUE
\* generator for the partial-death histories: only those in which a death is followed by an assertion
EmitDie == IF Hist /\ steps = MaxSteps /\ (\E i \in 1..(Len(h) - 1) : h[i].f[1] = "die" /\ h[i + 1].f[1] # "die")
           THEN PrintT(ToJson(h)) ELSE TRUE
====
