CONSTANTS
  Model = "geo"
  MaxSteps = 3
  Hist = TRUE
  TransOnlyAsserted = FALSE
  TransOutOnly = FALSE
  NoInverseOfInferred = FALSE
  DirectSuperOnly = FALSE
SPECIFICATION Spec
CONSTRAINT Emit
