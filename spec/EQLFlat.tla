---- MODULE EQLFlat ----
EXTENDS Naturals, Sequences, FiniteSets, TLC, Json
(***************************************************************************************************
 C01 - queries over a FLATTENED collection attribute:  f = flatten(y.items)  is a derived variable that
 ranges, for every binding of y, over the elements of y.items (SQL UNNEST: the bindings of y are kept, a
 y with an empty collection contributes nothing).  World = EQLCore's (o1..o4 with a, b, items).
 Layer R: the satisfying assignments of (x, y, f) with f \in items(y); a selection projects them.
 Conditions: the f-atoms  f.a == 0,  f == x,  x.a == f.b,  f.b >= y.a  alone, negated, and combined by and_
 with any atom / by or_ with another f-atom (an or_ branch that does not bind f leaves the statement
 unsettled: is a y without elements reported?).
 ***************************************************************************************************)
VARIABLE cond
Objs == {"o1", "o2", "o3", "o4"}
AttrOf == [o \in Objs |-> CASE o = "o1" -> [a |-> 0, b |-> 0] [] o = "o2" -> [a |-> 0, b |-> 1]
                            [] o = "o3" -> [a |-> 1, b |-> 0] [] OTHER -> [a |-> 1, b |-> 1]]
ItemsOf == [o \in Objs |-> CASE o = "o1" -> <<>> [] o = "o2" -> <<"o1">> [] o = "o3" -> <<"o1", "o4">> [] OTHER -> <<"o4", "o2">>]
SeqToSet(s) == { s[i] : i \in DOMAIN s }
A(v, n) == <<"attr", v, n>>
L(c) == <<"lit", c>>
Cmp(op, s, t) == <<"cmp", op, s, t>>
FAtoms == { Cmp("eq", A("f", "a"), L(0)), Cmp("eq", <<"var", "f">>, <<"var", "x">>), Cmp("eq", A("x", "a"), A("f", "b")),
            Cmp("ge", A("f", "b"), A("y", "a")) }
OtherAtoms == { Cmp("eq", A("x", "a"), L(0)), Cmp("eq", A("y", "b"), L(1)), <<"in", <<"var", "x">>, A("y", "items")>> }
Lits == FAtoms \cup { <<"not", p>> : p \in FAtoms }
Conds == Lits \cup { <<"and", p, q>> : p \in Lits, q \in Lits \cup OtherAtoms } \cup { <<"and", q, p>> : p \in Lits, q \in OtherAtoms }
              \cup { <<"or", p, q>> : p \in Lits, q \in Lits }
TermVal(t, g) == CASE t[1] = "lit" -> t[2] [] t[1] = "var" -> g[t[2]]
                   [] OTHER -> (IF t[3] = "items" THEN ItemsOf[g[t[2]]] ELSE AttrOf[g[t[2]]][t[3]])
Apply(op, l, r) == CASE op = "eq" -> l = r [] op = "ne" -> l # r [] op = "lt" -> l < r [] OTHER -> l >= r
RECURSIVE Sat(_, _)
Sat(e, g) == CASE e[1] = "cmp" -> Apply(e[2], TermVal(e[3], g), TermVal(e[4], g))
               [] e[1] = "in" -> TermVal(e[2], g) \in SeqToSet(TermVal(e[3], g))
               [] e[1] = "and" -> Sat(e[2], g) /\ Sat(e[3], g)
               [] e[1] = "or" -> Sat(e[2], g) \/ Sat(e[3], g)
               [] OTHER -> ~Sat(e[2], g)
RECURSIVE VarsOf(_)
VarsOf(e) == CASE e[1] = "lit" -> {} [] e[1] \in {"var", "attr"} -> {e[2]}
               [] e[1] = "cmp" -> VarsOf(e[3]) \cup VarsOf(e[4]) [] e[1] = "in" -> VarsOf(e[2]) \cup VarsOf(e[3])
               [] e[1] = "not" -> VarsOf(e[2]) [] OTHER -> VarsOf(e[2]) \cup VarsOf(e[3])
Doms == { <<"o3">>, <<"o1", "o2", "o3", "o4">>, <<"o4", "o2">> }
Sels == { <<"f">>, <<"y", "f">>, <<"x">>, <<"x", "f">>, <<"y">> }
\* an assignment binds y and f always (f depends on y), x when the condition or the selection mentions it
Asgs(e, dx, dy, sel) ==
  LET needX == "x" \in VarsOf(e) \cup SeqToSet(sel)
  IN { g \in [{"x", "y", "f"} -> Objs] : g["y"] \in SeqToSet(dy) /\ g["f"] \in SeqToSet(ItemsOf[g["y"]])
                                         /\ (IF needX THEN g["x"] \in SeqToSet(dx) ELSE g["x"] = "o1") /\ Sat(e, g) }
Answers(e, dx, dy, sel) == { [i \in DOMAIN sel |-> g[sel[i]]] : g \in Asgs(e, dx, dy, sel) }
Init == cond \in Conds
Next == FALSE /\ UNCHANGED cond
Spec == Init /\ [][Next]_cond
\* sanity of the reference: a flattened element always belongs to the collection of the reported y
RefSane == \A dx \in Doms, dy \in Doms : \A r \in Answers(cond, dx, dy, <<"y", "f">>) : r[2] \in SeqToSet(ItemsOf[r[1]])
Emit == PrintT(ToJson([cond |-> cond,
                       cases |-> { [dx |-> dx, dy |-> dy, sel |-> sel, exp |-> Answers(cond, dx, dy, sel)] : dx \in Doms, dy \in Doms, sel \in Sels }]))
====
