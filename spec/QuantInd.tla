---- MODULE QuantInd ----
EXTENDS Integers
(* C09, unbounded part: the counter protocol of Quantifier.tla (Produce / Finish) with symbolic bounds,
   typed for Apalache.  Obligations (checked by harness/checks/c09.py, thorough tier):
     Init => IndInv                  (--init=Init    --inv=IndInv --length=0)
     IndInv /\ Next => IndInv'       (--init=IndInit --inv=IndInv --length=1)
     IndInv => Safe                  (--init=IndInit --inv=Safe   --length=0)
   so "never more than the upper bound is yielded" holds for every number of solutions. *)
CONSTANTS
  \* @type: Int;
  Upper,
  \* @type: Int;
  Lower
VARIABLES
  \* @type: Int;
  count,
  \* @type: Int;
  yielded,
  \* @type: Str;
  status
CInit == Upper \in 0..1000 /\ Lower \in 0..1000 /\ Lower <= Upper
Init == count = 0 /\ yielded = 0 /\ status = "run"
Produce == /\ status = "run"
           /\ count' = count + 1
           /\ IF count + 1 > Upper THEN status' = "greater" /\ yielded' = yielded
              ELSE status' = "run" /\ yielded' = yielded + 1
Finish == /\ status = "run" /\ UNCHANGED <<count, yielded>>
          /\ status' = IF count < Lower THEN "less" ELSE "done"
Next == Produce \/ Finish
IndInv == /\ count >= 0 /\ yielded >= 0
          /\ status \in {"run","greater","less","done"}
          /\ (status \in {"run","less","done"} => yielded = count /\ count <= Upper)
          /\ (status = "greater" => yielded = Upper /\ count = Upper + 1)
          /\ (status = "done" => count >= Lower)
          /\ (status = "less" => count < Lower)
IndInit == count \in Int /\ yielded \in Int /\ status \in {"run","greater","less","done"} /\ IndInv
Safe == yielded <= Upper
====
