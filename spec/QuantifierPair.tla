---- MODULE QuantifierPair ----
EXTENDS Integers, Sequences, FiniteSets, TLC, Json
(***************************************************************************************************
 C09 (with C03's quantifier): two live evaluations of ONE quantified query object, stepped in any
 interleaving.  The solution count belongs to the evaluation, not to the query object: each iterator
 must observe exactly Quantifier!Expected, whatever the other one does.
 Layer I has one counter per iterator; the deviation switch SharedCounter (TRUE = one counter on the
 query object, reset when an evaluation starts) is refuted by TLC.
 ***************************************************************************************************)
CONSTANTS MaxN, MaxB, SharedCounter
VARIABLES kind, lo, hi, n, count, shared, pos, status, h
vars == <<kind, lo, hi, n, count, shared, pos, status, h>>
Its == {1, 2}
Kinds == {"atleast", "atmost", "exactly", "range"}
Inf == 1000000
Lower == CASE kind \in {"atleast", "range", "exactly"} -> lo [] OTHER -> 0
Upper == CASE kind \in {"atmost", "range"} -> hi [] kind = "exactly" -> lo [] OTHER -> Inf
Vals(m) == [i \in 1..m |-> ToString(i)]
Expected == IF n > Upper THEN Vals(Upper) \o << "GreaterThanExpectedNumberOfSolutions" >>
            ELSE IF n < Lower THEN Vals(n) \o << "LessThanExpectedNumberOfSolutions" >>
            ELSE Vals(n) \o << "stop" >>
Init == /\ kind \in Kinds /\ lo \in 0..MaxB /\ hi \in 0..MaxB /\ n \in 0..MaxN
        /\ (kind \in {"atleast", "exactly"} => hi = 0) /\ (kind = "atmost" => lo = 0) /\ (kind = "range" => lo <= hi)
        /\ count = [i \in Its |-> 0] /\ shared = 0 /\ pos = [i \in Its |-> 0]
        /\ status = [i \in Its |-> "idle"] /\ h = << >>
Cnt(i) == IF SharedCounter THEN shared ELSE count[i]
\* evaluate(): the generator is created; the counter is initialised at the first next()
Start(i) == /\ status[i] = "idle" /\ status' = [status EXCEPT ![i] = "fresh"]
            /\ h' = Append(h, [i |-> i, o |-> "start"]) /\ UNCHANGED <<kind, lo, hi, n, count, shared, pos>>
NextOf(i) ==
  /\ status[i] \in {"fresh", "run"}
  /\ LET c0 == IF status[i] = "fresh" THEN 0 ELSE Cnt(i) IN
     IF pos[i] < n
     THEN LET c1 == c0 + 1 IN
          /\ pos' = [pos EXCEPT ![i] = @ + 1]
          /\ count' = [count EXCEPT ![i] = c1] /\ shared' = c1
          /\ IF c1 > Upper
             THEN status' = [status EXCEPT ![i] = "greater"] /\ h' = Append(h, [i |-> i, o |-> "GreaterThanExpectedNumberOfSolutions"])
             ELSE status' = [status EXCEPT ![i] = "run"] /\ h' = Append(h, [i |-> i, o |-> ToString(pos[i] + 1)])
     ELSE /\ UNCHANGED pos /\ count' = [count EXCEPT ![i] = c0] /\ shared' = c0
          /\ IF c0 < Lower
             THEN status' = [status EXCEPT ![i] = "less"] /\ h' = Append(h, [i |-> i, o |-> "LessThanExpectedNumberOfSolutions"])
             ELSE status' = [status EXCEPT ![i] = "done"] /\ h' = Append(h, [i |-> i, o |-> "stop"])
  /\ UNCHANGED <<kind, lo, hi, n>>
Next == \E i \in Its : Start(i) \/ NextOf(i)
Spec == Init /\ [][Next]_vars
Obs(i) == LET s == SelectSeq(h, LAMBDA e : e.i = i /\ e.o # "start") IN [k \in DOMAIN s |-> s[k].o]
Terminal == \A i \in Its : status[i] \in {"done", "greater", "less"}
\* every iterator sees a prefix of the reference observation, and the whole of it when it terminates
EachAlone == \A i \in Its : /\ Len(Obs(i)) <= Len(Expected)
                            /\ \A k \in DOMAIN Obs(i) : Obs(i)[k] = Expected[k]
                            /\ (status[i] \in {"done", "greater", "less"} => Obs(i) = Expected)
Emit == IF Terminal THEN PrintT(ToJson([kind |-> kind, lo |-> lo, hi |-> hi, n |-> n, h |-> h, exp |-> Expected])) ELSE TRUE
====
