CONSTANT Mode = "int"
SPECIFICATION Spec
CONSTRAINT Emit
