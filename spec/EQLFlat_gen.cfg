SPECIFICATION Spec
INVARIANT RefSane
CONSTRAINT Emit
