CONSTANTS
  MaxN = 3
  MaxB = 3
  SharedCounter = FALSE
SPECIFICATION Spec
INVARIANT EachAlone
