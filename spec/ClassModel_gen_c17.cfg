CONSTANTS
  MaxF = 2
  SampleSize = 600
  ForORM = FALSE
SPECIFICATION Spec
INVARIANT RefSane
CONSTRAINT Emit
