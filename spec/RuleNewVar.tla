---- MODULE RuleNewVar ----
EXTENDS Naturals, Sequences, FiniteSets, TLC, Json
(***************************************************************************************************
 C08 - a refinement whose condition introduces a variable of its own.

    rule over x (base condition TRUE, conclusion T0(p = x))
       refinement(y.a == x.a)   conclusion T1(p = x, r = y)        y ranges over its own domain
 Layer R: a base binding x for which some y satisfies the refinement produces the refinement's conclusion
 for EVERY such y (each (x, y) is a binding that triggers it, and the instance is built from that binding's
 values); a base binding without a matching y produces the base conclusion.
 TLC enumerates the worlds: xa \in [1..2 -> 0..1], ya \in [1..3 -> 0..2].
 ***************************************************************************************************)
VARIABLES xa, ya
Init == xa \in [1..2 -> 0..1] /\ ya \in [1..3 -> 0..2]
Next == FALSE /\ UNCHANGED <<xa, ya>>
Spec == Init /\ [][Next]_<<xa, ya>>
Match(x, y) == ya[y] = xa[x]
Expected == { <<"T1", p[1], p[2]>> : p \in { q \in (1..2) \X (1..3) : Match(q[1], q[2]) } }
            \cup { <<"T0", x, 0>> : x \in { xx \in 1..2 : ~\E y \in 1..3 : Match(xx, y) } }
\* sanity: every x is accounted for exactly by one kind of conclusion
Covered == \A x \in 1..2 : (\E t \in Expected : t[2] = x) /\ ~(\E s, t \in Expected : s[2] = x /\ t[2] = x /\ s[1] # t[1])
\* Second template: the alternative INSIDE the refinement's block introduces the variable, and the branches conclude over
\* different variable sets:
\*    rule over x (base TRUE, T0(p = x))
\*       refinement(x.a == 1)          T1(p = x)
\*          alternative(z.a == x.b)    T2(p = x, r = z)       (else-if sibling of the refinement; z = the y domain; x.b = 2 - x.a)
\* x with a = 1 gets T1; otherwise every z with z.a = x.b gives a T2(x, z); otherwise the base conclusion.
XB(x) == 2 - xa[x]
Expected2 == { <<"T1", x, 0>> : x \in { xx \in 1..2 : xa[xx] = 1 } }
             \cup { <<"T2", p[1], p[2]>> : p \in { q \in (1..2) \X (1..3) : xa[q[1]] # 1 /\ ya[q[2]] = XB(q[1]) } }
             \cup { <<"T0", x, 0>> : x \in { xx \in 1..2 : xa[xx] # 1 /\ ~\E z \in 1..3 : ya[z] = XB(xx) } }
\* Third template: the second rule with a base condition that joins a further variable u having TWO matches for every x
\* (u.a == 0 over {u1, u2}): two base bindings share the values of every conclusion variable.  Conclusions are built from the
\* conclusion variables only, so the set of inferred instances is that of the second template.
Expected3 == Expected2
Emit == PrintT(ToJson([xa |-> xa, ya |-> ya, exp |-> Expected, exp2 |-> Expected2]))
====
