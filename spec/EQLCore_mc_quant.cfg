CONSTANTS
  Family = "quant"
  MaxDepth = 2
  SampleSize = 500
  NegUnionFlipsEach = FALSE
SPECIFICATION Spec
INVARIANT RefSane
