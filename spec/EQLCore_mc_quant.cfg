CONSTANTS
  Family = "quant"
  MaxDepth = 2
  SampleSize = 500
  NegUnionFlipsEach = FALSE
  NegNestedUnionFlips = FALSE
  FalsyObjs = {}
  OperandTruthFilter = FALSE
SPECIFICATION Spec
INVARIANT RefSane
