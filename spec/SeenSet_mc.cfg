CONSTANTS
  MaxSteps = 5
  WithKeys = TRUE
  ExactOnly = FALSE
  ClearKeepsAll = FALSE
  Hist = FALSE
SPECIFICATION Spec
INVARIANT Agree
