---- MODULE RuleTree ----
EXTENDS Naturals, Sequences, FiniteSets, TLC, Json
(***************************************************************************************************
 C08 - rule trees follow except-if / else-if / also-if semantics.

 A program is the nesting of with-blocks: Block = Seq(<<kind, label, Block>>), kind in ref | alt | next,
 labels in preorder; condition c_label is a unary predicate of the one variable x; the base condition is
 condition K (a further unary predicate: some elements fail it); conclusion ids: 0 = base, label + 1 = the branch with that label.  The world is complete: one
 element per truth vector of the K + 1 conditions, so one world decides all data.
 Layer R (Expected): the lexical reading - inside the block of node N, refinement(c) is an exception to N,
          alternative(c) an else-if sibling of N (in written order), next_rule(c) fires in addition.
 Layer I (ImplFire): the node graph that rule.py's refinement() / alternative_or_next() build by re-parenting
          (as implemented: refinement() leaves the enclosing operand untouched; alternative_or_next() climbs
          one level and overwrites the parent's right operand) and the selector evaluation of
          conclusion_selector.py (ExceptIf, Alternative, Next with update_conclusion's per-truth-branch
          seen-sets keyed by the bindings, dynamic _conclusion_ visible to the parent at yield time).
 Agree is NOT an invariant of the implementation as it stands (open findings C08-F13/F14/F15); TLC's
 counter-examples are the witnesses, and ImplFire is the exact as-implemented predictor used for attribution.
 ***************************************************************************************************)
CONSTANTS MaxBranches, OnlyShapes
K == MaxBranches
\* ---------- programs: Block = Seq(<<kind, label, Block>>), labels in preorder from k
RECURSIVE Blk(_,_)
Blk(k, n) == IF n = 0 THEN { <<>> }
             ELSE UNION { { <<<<kind, k, sub>>>> \o rest : sub \in Blk(k+1, first-1), rest \in Blk(k+first, n-first) }
                          : first \in 1..n, kind \in {"ref","alt","next"} }
Programs == UNION { Blk(0, n) : n \in 0..MaxBranches }
Elems == [0..K -> BOOLEAN]        \* complete world: one element per truth vector; e[K] = truth of the base condition
\* ---------- R: lexical semantics.  conclusion ids: 0 = base, i+1 = branch labelled i.  base condition is TRUE.
RECURSIVE FireBlock(_,_,_), EvalNode(_,_,_), FirstRef(_,_,_), FirstAlt(_,_,_), Nexts(_,_,_)
No == [ok |-> FALSE, cs |-> {}]
Yes(cs) == [ok |-> TRUE, cs |-> cs]
FirstRef(ch, i, e) == IF i > Len(ch) THEN No
                      ELSE IF ch[i][1] = "ref" /\ EvalNode(ch[i][2], ch[i][3], e).ok THEN EvalNode(ch[i][2], ch[i][3], e)
                      ELSE FirstRef(ch, i+1, e)
FirstAlt(ch, i, e) == IF i > Len(ch) THEN No
                      ELSE IF ch[i][1] = "alt" /\ EvalNode(ch[i][2], ch[i][3], e).ok THEN EvalNode(ch[i][2], ch[i][3], e)
                      ELSE FirstAlt(ch, i+1, e)
Nexts(ch, i, e) == IF i > Len(ch) THEN {}
                   ELSE (IF ch[i][1] = "next" THEN EvalNode(ch[i][2], ch[i][3], e).cs ELSE {}) \cup Nexts(ch, i+1, e)
FireBlock(own, ch, e) == LET r == FirstRef(ch, 1, e) IN IF r.ok THEN r.cs ELSE {own}
EvalNode(i, ch, e) == LET main == IF e[i] THEN Yes(FireBlock(i+1, ch, e)) ELSE FirstAlt(ch, 1, e)
                          nx == Nexts(ch, 1, e)
                      IN IF ~main.ok /\ nx = {} THEN No ELSE Yes(main.cs \cup nx)
\* the rule itself is the root node: its own condition is the base condition (e[K]), its conclusion id is 0
Expected(prog, e) == LET main == IF e[K] THEN Yes(FireBlock(0, prog, e)) ELSE FirstAlt(prog, 1, e)
                     IN main.cs \cup Nexts(prog, 1, e)
RECURSIVE Ambig(_,_)
Ambig(ch, e) == \/ Cardinality({ i \in DOMAIN ch : ch[i][1] = "ref" /\ EvalNode(ch[i][2], ch[i][3], e).ok }) > 1
                \/ \E i \in DOMAIN ch : Ambig(ch[i][3], e)

\* ---------- I: node graph.  node ids: 1 = base condition, then allocated.  ENT = 0 is the Entity.
\* G = [n: next id, kind, l, r, p, c (cond label or -1 for base), concl, ent (Entity._child_)]
Node(G, id) == G.nodes[id]
NewG == [n |-> 2, nodes |-> (1 :> [kind |-> "cond", l |-> 0, r |-> 0, p |-> 0, c |-> K, concl |-> {0}]), ent |-> 1]
SetP(G, id, par) == [G EXCEPT !.nodes[id].p = par]
IsSel(G, id) == id # 0 /\ G.nodes[id].kind \in {"xif","alt","next"}
AddNode(G, rec) == [G EXCEPT !.nodes = G.nodes @@ (G.n :> rec), !.n = G.n + 1]
\* refinement(): ExceptIf(cur, new branch); parent's operand is NOT updated (as pinned)
Refine(G, cur, lbl) ==
  LET prev == G.nodes[cur].p
      G1 == AddNode(G, [kind |-> "cond", l |-> 0, r |-> 0, p |-> 0, c |-> lbl, concl |-> {lbl+1}])   \* the branch condition, id = G.n
      cn == G.n
      G2 == AddNode(G1, [kind |-> "xif", l |-> cur, r |-> cn, p |-> prev, c |-> K, concl |-> {}])
      x == G1.n
      G3 == SetP(SetP(G2, cur, x), cn, x)
      G4 == IF prev = 0 THEN [G3 EXCEPT !.ent = x] ELSE G3
  IN [g |-> G4, branch |-> cn]
AltOrNext(G, cur0, kind, lbl) ==
  LET par0 == G.nodes[cur0].p
      cur == IF par0 # 0 /\ G.nodes[par0].kind \in {"alt","next"} THEN par0
             ELSE IF par0 # 0 /\ G.nodes[par0].kind = "xif" /\ G.nodes[par0].l = cur0 THEN par0 ELSE cur0
      prev == G.nodes[cur].p
      G1 == AddNode(G, [kind |-> "cond", l |-> 0, r |-> 0, p |-> 0, c |-> lbl, concl |-> {lbl+1}])
      cn == G.n
      G2 == AddNode(G1, [kind |-> kind, l |-> cur, r |-> cn, p |-> prev, c |-> K, concl |-> {}])
      x == G1.n
      G3 == SetP(SetP(G2, cur, x), cn, x)
      G4 == IF prev = 0 THEN [G3 EXCEPT !.ent = x] ELSE [G3 EXCEPT !.nodes[prev].r = x]
  IN [g |-> G4, branch |-> cn]
RECURSIVE Build(_,_,_)
\* process the branches of a block whose with-target (stack top) is node `top`
Build(G, top, ch) == IF ch = <<>> THEN G
                     ELSE LET b == ch[1]
                              res == IF b[1] = "ref" THEN Refine(G, top, b[2]) ELSE AltOrNext(G, top, b[1], b[2])
                              Gin == Build(res.g, res.branch, b[3])
                          IN Build(Gin, top, Tail(ch))
Graph(prog) == Build(NewG, 1, prog)

\* ---------- I: evaluation for one element e.  State S = [flag: node -> BOOLEAN (is_false), seenT, seenF: sets of nodes whose concluded_before[True/False] already holds x=e,
\*                                                       dyn: node -> set (dynamic _conclusion_ of selectors), le, re: node -> BOOLEAN (left/right_evaluated)]
Truth(G, id, e) == e[G.nodes[id].c]
Visible(G, S, id) == IF G.nodes[id].kind = "cond" THEN G.nodes[id].concl ELSE S.dyn[id]
Upd(G, S, n, cs) == \* update_conclusion
   IF cs = {} THEN S
   ELSE IF S.flag[n] THEN (IF n \in S.seenF THEN S ELSE [S EXCEPT !.dyn[n] = @ \cup cs, !.seenF = @ \cup {n}])
        ELSE (IF n \in S.seenT THEN S ELSE [S EXCEPT !.dyn[n] = @ \cup cs, !.seenT = @ \cup {n}])
\* Ev returns [outs |-> Seq([f, cs]), S].  A node may yield several outputs per element (Next yields one per phase),
\* so every operator folds over its operand's output sequence, threading the state exactly in generator order:
\* the operand's state effects for output k+1 happen after the parent finished processing output k.  Because the
\* operand here is fully evaluated first, flags written by later operand outputs are re-applied per output (field fl).
RECURSIVE Ev(_,_,_,_), XifFold(_,_,_,_,_,_), AltFold(_,_,_,_,_,_), NextLeftFold(_,_,_,_,_,_), NextRightFold(_,_,_,_,_,_), RightGood(_,_,_,_,_,_)
Out(f, cs, fl) == [f |-> f, cs |-> cs, fl |-> fl]     \* fl = flag of the yielding node at yield time
Ev(G, n, e, S) ==
  LET nd == G.nodes[n] IN
  CASE nd.kind = "cond" ->
         LET f == ~Truth(G, n, e) IN [outs |-> << Out(f, nd.concl, f) >>, S |-> [S EXCEPT !.flag[n] = f]]
    [] nd.kind = "xif"  -> LET L == Ev(G, nd.l, e, S) IN XifFold(G, n, e, L.S, L.outs, 1)
    [] nd.kind = "alt"  -> LET L == Ev(G, nd.l, e, S) IN AltFold(G, n, e, L.S, L.outs, 1)
    [] nd.kind = "next" -> LET L == Ev(G, nd.l, e, S)
                               P1 == NextLeftFold(G, n, e, L.S, L.outs, 1)
                               R == Ev(G, nd.r, e, P1.S)
                               P2 == NextRightFold(G, n, e, R.S, R.outs, 1)
                           IN [outs |-> P1.outs \o P2.outs, S |-> P2.S]
\* yield one result of selector n with conclusions cs0 offered: update, emit, clear
Emit1(G, S, n, f, cs0) == LET S1 == [S EXCEPT !.flag[n] = f]
                              S2 == Upd(G, S1, n, cs0)
                          IN [o |-> Out(f, S2.dyn[n], f), S |-> [S2 EXCEPT !.dyn[n] = {}]]
XifFold(G, n, e, S, louts, i) ==
  IF i > Len(louts) THEN [outs |-> <<>>, S |-> S]
  ELSE LET lo == louts[i]
           nd == G.nodes[n]
           Sl == [S EXCEPT !.flag[nd.l] = lo.fl, !.flag[n] = lo.f]
       IN IF lo.f THEN LET rest == XifFold(G, n, e, Sl, louts, i+1) IN [outs |-> << lo >> \o rest.outs, S |-> rest.S]
          ELSE LET R == Ev(G, nd.r, e, Sl)
                   G1 == RightGood(G, n, e, R.S, R.outs, 1)        \* one emitted output per true right value
                   here == IF G1.outs # <<>> THEN G1 ELSE LET E1 == Emit1(G, R.S, n, FALSE, lo.cs) IN [outs |-> << E1.o >>, S |-> E1.S]
                   rest == XifFold(G, n, e, here.S, louts, i+1)
               IN [outs |-> here.outs \o rest.outs, S |-> rest.S]
RightGood(G, n, e, S, routs, i) ==
  IF i > Len(routs) THEN [outs |-> <<>>, S |-> S]
  ELSE IF routs[i].f THEN RightGood(G, n, e, S, routs, i+1)
       ELSE LET E1 == Emit1(G, S, n, FALSE, routs[i].cs)
                rest == RightGood(G, n, e, E1.S, routs, i+1)
            IN [outs |-> << E1.o >> \o rest.outs, S |-> rest.S]
RECURSIVE AltRight(_,_,_,_,_,_,_)
AltRight(G, n, e, S, lo, routs, i) ==
  IF i > Len(routs) THEN [outs |-> <<>>, S |-> S]
  ELSE LET nd == G.nodes[n]
           ro == routs[i]
           S1 == [S EXCEPT !.flag[nd.r] = ro.fl, !.flag[n] = ro.f]
           S2 == IF ~S1.flag[nd.l] THEN Upd(G, S1, n, lo.cs) ELSE IF ~S1.flag[nd.r] THEN Upd(G, S1, n, ro.cs) ELSE S1
           o == Out(S1.flag[n], S2.dyn[n], S1.flag[n])
           rest == AltRight(G, n, e, [S2 EXCEPT !.dyn[n] = {}], lo, routs, i+1)
       IN [outs |-> << o >> \o rest.outs, S |-> rest.S]
AltFold(G, n, e, S, louts, i) ==
  IF i > Len(louts) THEN [outs |-> <<>>, S |-> S]
  ELSE LET lo == louts[i]
           nd == G.nodes[n]
           Sl == [S EXCEPT !.flag[nd.l] = lo.fl]
       IN IF lo.f
          THEN LET R == Ev(G, nd.r, e, Sl)
                   here == AltRight(G, n, e, R.S, lo, R.outs, 1)
                   rest == AltFold(G, n, e, here.S, louts, i+1)
               IN [outs |-> here.outs \o rest.outs, S |-> rest.S]
          ELSE LET S1 == [Sl EXCEPT !.flag[n] = FALSE]
                   S2 == IF ~S1.flag[nd.l] THEN Upd(G, S1, n, lo.cs) ELSE IF ~S1.flag[nd.r] THEN Upd(G, S1, n, Visible(G, S1, nd.r)) ELSE S1
                   o == Out(FALSE, S2.dyn[n], FALSE)
                   rest == AltFold(G, n, e, [S2 EXCEPT !.dyn[n] = {}], louts, i+1)
               IN [outs |-> << o >> \o rest.outs, S |-> rest.S]
NextLeftFold(G, n, e, S, louts, i) ==
  IF i > Len(louts) THEN [outs |-> <<>>, S |-> S]
  ELSE LET lo == louts[i]
           nd == G.nodes[n]
           Sl == [S EXCEPT !.flag[nd.l] = lo.fl]
       IN IF lo.f
          THEN LET R == Ev(G, nd.r, e, Sl)
                   here == NextRightFold(G, n, e, R.S, R.outs, 1)      \* left_evaluated reset, right_evaluated set
                   rest == NextLeftFold(G, n, e, here.S, louts, i+1)
               IN [outs |-> here.outs \o rest.outs, S |-> rest.S]
          ELSE LET E1 == Emit1(G, Sl, n, FALSE, lo.cs)
                   rest == NextLeftFold(G, n, e, E1.S, louts, i+1)
               IN [outs |-> << E1.o >> \o rest.outs, S |-> rest.S]
NextRightFold(G, n, e, S, routs, i) ==
  IF i > Len(routs) THEN [outs |-> <<>>, S |-> S]
  ELSE LET ro == routs[i]
           nd == G.nodes[n]
           E1 == Emit1(G, [S EXCEPT !.flag[nd.r] = ro.fl], n, ro.f, ro.cs)
           rest == NextRightFold(G, n, e, E1.S, routs, i+1)
       IN [outs |-> << E1.o >> \o rest.outs, S |-> rest.S]
S0(G) == [flag |-> [i \in DOMAIN G.nodes |-> FALSE], seenT |-> {}, seenF |-> {}, dyn |-> [i \in DOMAIN G.nodes |-> {}]]
\* Entity: true outputs with a non-empty visible conclusion set produce (one of) those conclusions
ImplFire(prog, e) == LET G == Graph(prog)
                         R == Ev(G, G.ent, e, S0(G))
                     IN UNION { o.cs : o \in { R.outs[i] : i \in DOMAIN R.outs } \cap { oo \in { R.outs[i] : i \in DOMAIN R.outs } : ~oo.f } }
VARIABLE prog
\* shapes on which the implementation is expected to meet the reference: at most one refinement per block and no
\* refinement inside the block of a refinement or of an alternative (reachable once the base condition can fail), no refinement after an alternative of the same block, at most one alternative per
\* block, no next_rule (see the findings)
RECURSIVE Plain(_, _)
Plain(ch, underRef) ==
  /\ Cardinality({ i \in DOMAIN ch : ch[i][1] = "ref" }) <= (IF underRef THEN 0 ELSE 1)
  /\ Cardinality({ i \in DOMAIN ch : ch[i][1] = "alt" }) <= 1
  /\ \A i, j \in DOMAIN ch : i < j /\ ch[i][1] = "alt" => ch[j][1] # "ref"      \* a refinement written after an alternative is lost
  /\ \A i \in DOMAIN ch : ch[i][1] # "next" /\ Plain(ch[i][3], TRUE)
Init == prog \in (IF OnlyShapes = "plain" THEN { p \in Programs : Plain(p, FALSE) } ELSE Programs)
Next == FALSE /\ UNCHANGED prog
Agree == \A e \in Elems : Ambig(prog, e) \/ ImplFire(prog, e) = Expected(prog, e)
ElemKey(e) == [i \in 0..K |-> IF e[i] THEN 1 ELSE 0]
Emit == PrintT(ToJson([prog |-> prog, agree |-> Agree, k |-> K,
                       cases |-> { [e |-> ElemKey(e), exp |-> Expected(prog, e), impl |-> ImplFire(prog, e), ambig |-> Ambig(prog, e)] : e \in Elems }]))
====
