CONSTANTS
  MaxN = 6
  MinB <- MinusOne
  MaxB = 5
  CheckOnlyAtEnd = FALSE
  StrictUpper = FALSE
  SkipFinal = FALSE
SPECIFICATION Spec





CONSTRAINT Emit
