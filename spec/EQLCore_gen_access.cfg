CONSTANTS
  Family = "access"
  MaxDepth = 2
  SampleSize = 2500
  NegUnionFlipsEach = FALSE
  FalsyObjs = {}
  OperandTruthFilter = FALSE
SPECIFICATION Spec
CONSTRAINT Emit
