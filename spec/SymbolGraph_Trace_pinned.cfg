CONSTANT StaleRelationIndex = TRUE
SPECIFICATION Spec
INVARIANT C20reg
CONSTRAINT Report
