---- MODULE CallShape ----
EXTENDS Naturals, Sequences, FiniteSets, TLC, Json
(***************************************************************************************************
 C12 - predicates and symbolic functions agree between concrete and symbolic calls.

 A signature has parameters p1..pN (N <= 3); the last NDef of them have defaults.  A call passes NP
 positional arguments and a set KW of keyword arguments; each passed argument is a concrete value or a
 query variable.  Python's binding rule (Bind), the mode (symbolic iff some argument is a variable) and
 the behaviour are the reference:
   concrete call  - the body runs exactly once, now, with the bound parameters; its plain result is returned
   symbolic call  - the body does not run; a condition is returned; during evaluation the body runs once per
                    candidate binding of the variables, each parameter bound to the value of the argument
                    written in that position, and contributes exactly the truth value of the concrete call.
 The body is  (p1 + 2*p2 + 3*p3) % 3 # 0  (absent parameters count 0); variables range over 0..2 (0 is falsy).
 Layer I is merge_args_and_kwargs: OffByOne = TRUE skips the first parameter name (the behaviour of
 @symbolic_function before the fix) and is refuted by TLC.
 ***************************************************************************************************)
CONSTANTS OffByOne
VARIABLES n, ndef, np, kw, vars, style
st == <<n, ndef, np, kw, vars, style>>
Default(i) == i + 3                      \* default value of parameter i
Concrete(i) == i                         \* the concrete value written for parameter i
Dom == 0..2                               \* candidate values of a query variable; 0 is a falsy value
Supplied == (1..np) \cup kw
WellFormed == /\ n \in 1..3 /\ ndef \in 0..n /\ np \in 0..n
              /\ kw \subseteq ((np + 1)..n)
              /\ \A i \in 1..(IF style = "varkw" THEN 1 ELSE n - ndef) : i \in Supplied          \* required parameters are passed
              /\ vars \subseteq Supplied
              \* signature styles beyond (arity, defaults), concrete calls only: all parameters positional-only  def f(p1.., /),
              \* or one parameter and a var-positional rest  def f(p1, *rest, **options)  called with n positional arguments
              /\ style = "posonly" => kw = {} /\ vars = {}
              /\ style = "varargs" => ndef = 0 /\ kw = {} /\ np = n /\ vars = {}
              \* def f(p1, **options): p2, p3 travel as extra keywords through **options (absent = 0); concrete and symbolic calls
              /\ style = "varkw" => ndef = 0 /\ np <= 1 /\ n >= 2 /\ (\E i \in kw : i >= 2)
Init == /\ n \in 1..3 /\ ndef \in 0..3 /\ np \in 0..3 /\ kw \in SUBSET (1..3) /\ vars \in SUBSET (1..3)
        /\ style \in {"plain", "posonly", "varargs", "varkw"} /\ WellFormed
Next == FALSE /\ UNCHANGED st
Spec == Init /\ [][Next]_st
Symbolic == vars # {}
\* reference binding: parameter i receives the i-th positional argument, or the keyword argument named p_i, or its default
ParamVal(i, asg) == IF i \in vars THEN asg[i] ELSE IF i \in Supplied THEN Concrete(i) ELSE IF style = "varkw" THEN 0 ELSE Default(i)
Body(asg) == LET v(i) == IF i <= n THEN ParamVal(i, asg) ELSE 0 IN (v(1) + 2 * v(2) + 3 * v(3)) % 3 # 0
Asgs == [vars -> Dom]
\* layer I: which parameter the j-th positional argument lands on
LandsOn(j) == IF OffByOne THEN j + 1 ELSE j
BindOK == \A j \in 1..np : LandsOn(j) = j
\* observations the replayer compares
Expected == [symbolic |-> Symbolic,
             calls_at_call_time |-> IF Symbolic THEN 0 ELSE 1,
             concrete_result |-> IF Symbolic THEN FALSE ELSE Body(<<>>),
             calls_at_evaluation |-> IF Symbolic THEN { [a |-> [i \in 1..n |-> ParamVal(i, g)], r |-> Body(g)] : g \in Asgs } ELSE {},
             solutions |-> IF Symbolic THEN { g \in Asgs : Body(g) } ELSE {},
             \* the number-valued variant of the function used as an operand:  g(...) == 0  holds exactly where the body's value is 0
             solutions_zero |-> IF Symbolic THEN { g \in Asgs : ~Body(g) } ELSE {}]
Emit == PrintT(ToJson([n |-> n, ndef |-> ndef, np |-> np, kw |-> kw, vars |-> vars, style |-> style, exp |-> Expected]))
====
