CONSTANTS
  MaxSteps = 3
  WithKeys = FALSE
  ExactOnly = FALSE
  ClearKeepsAll = FALSE
  Hist = TRUE
SPECIFICATION Spec
CONSTRAINT Emit
