CONSTANTS
  N = 3
  Its = {1, 2}
  MaxSteps = 12
  SharedDrain = FALSE
  Warm = FALSE
  Hist = FALSE
SPECIFICATION Spec
INVARIANT C03
