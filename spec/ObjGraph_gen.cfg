CONSTANTS
  PlaceholderLeak = TRUE
  SampleSize = 0
SPECIFICATION Spec
CONSTRAINT Emit
