CONSTANTS
  MaxObj = 3
  MaxSteps = 6
  CreateClasses = {"P","C"}
  QueryClasses = {"P"}
  AllowClear = FALSE
  AllowRelate = TRUE
  AllowQueryX = TRUE
  AllowSweep = TRUE
  AllowDeclare = FALSE
  AllowDetach = FALSE
  AllowInfer = FALSE
  CopyModes = {}
  UnregisteredModes = {}
  Hist = FALSE
  PopIdOfNone = FALSE
  StaleRelationIndex = FALSE
  DupSubclassList = FALSE
  StrongExprTable = TRUE
SPECIFICATION Spec
INVARIANT C20pin
