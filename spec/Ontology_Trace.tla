---- MODULE Ontology_Trace ----
EXTENDS Ontology, IOUtils
(***************************************************************************************************
 Trace validation (code -> spec) of the relation events emitted by hooks H1/H3 while descriptor-managed
 fields are written: every recorded relation must be a step the declared semantics allow, and at every
 quiescent point (the user-level write has returned) the recorded relations must be closed.
   assert(p,s,t)   harness marker: the user writes fact <<p,s,t>>
   rel(p,s,t,inferred,added)   SymbolGraph.add_relation
   quiescent       harness marker: the write returned
 Clauses tagged prop:C15 are verdicts about the property; shape: clauses are model drift.
 Reuses Ontology's variables `asserted` and `edges` and its operators StepR / Closure.
 ***************************************************************************************************)
Traces == ndJsonDeserialize(IOEnv.TRACE_FILE)
VARIABLES tid, l, cur, verdict
tvars == <<asserted, edges, steps, h, gone, tid, l, cur, verdict>>
Ev == Traces[tid].ev
E == Ev[l]
TInit == /\ tid \in 1..Len(Traces) /\ l = 1 /\ cur = <<>> /\ verdict = "ok"
         /\ asserted = {} /\ edges = {} /\ steps = 0 /\ h = <<>> /\ gone = {}
Reject(v) == verdict' = v /\ UNCHANGED <<asserted, edges, cur>>
TAssert == /\ E.a = "assert"
           /\ cur' = <<E.p, E.s, E.t>> /\ asserted' = asserted \cup {<<E.p, E.s, E.t>>}
           /\ UNCHANGED <<edges, verdict>>
TRel == /\ E.a = "rel"
        /\ LET f == <<E.p, E.s, E.t>> IN
           IF ~E.added THEN (IF f \in edges THEN UNCHANGED <<asserted, edges, cur, verdict>>
                             ELSE Reject("prop:C15 relation reported as already known but never recorded"))
           ELSE IF f \in edges THEN Reject("shape:relation added twice")
           ELSE IF ~E.inferred THEN (IF f = cur THEN edges' = edges \cup {f} /\ UNCHANGED <<asserted, cur, verdict>>
                                     ELSE Reject("shape:asserted relation differs from the written fact"))
           ELSE IF f \in StepR(edges) THEN edges' = edges \cup {f} /\ UNCHANGED <<asserted, cur, verdict>>
           ELSE Reject("prop:C15 inferred relation is not derivable by one rule from the relations present")
TQuiescent == /\ E.a = "quiescent"
              /\ IF edges = Closure(asserted) THEN UNCHANGED <<asserted, edges, cur, verdict>>
                 ELSE IF edges \subseteq Closure(asserted) THEN Reject("prop:C15 facts missing at quiescence")
                 ELSE Reject("prop:C15 facts beyond the closure at quiescence")
TNext == /\ verdict = "ok" /\ l <= Len(Ev)
         /\ (TAssert \/ TRel \/ TQuiescent)
         /\ l' = l + 1 /\ UNCHANGED <<tid, steps, h, gone>>
TSpec == TInit /\ [][TNext]_tvars
Report == IF verdict # "ok" THEN PrintT(ToJson([t |-> Traces[tid].name, v |-> verdict, at |-> l - 1]))
          ELSE IF l = Len(Ev) + 1 THEN PrintT(ToJson([t |-> Traces[tid].name, v |-> "accepted", at |-> Len(Ev)])) ELSE TRUE
====
