CONSTANTS
  Part = "tag"
  MaxDepth = 0
  SampleSize = 0
  NoTypeCheck = FALSE
  ImportOnlyNotFound = FALSE
  MroRegistryLookup = FALSE
  NoClassCheck = FALSE
SPECIFICATION Spec
CONSTRAINT EmitTag
