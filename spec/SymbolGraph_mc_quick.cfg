CONSTANTS
  MaxObj = 4
  MaxSteps = 7
  CreateClasses = {"P","C","DD","Mid"}
  QueryClasses = {"DA","Base","P"}
  AllowClear = TRUE
  AllowRelate = TRUE
  AllowQueryX = FALSE
  AllowSweep = TRUE
  AllowDeclare = FALSE
  AllowDetach = FALSE
  AllowInfer = FALSE
  CopyModes = {}
  UnregisteredModes = {}
  Hist = FALSE
  PopIdOfNone = FALSE
  StaleRelationIndex = FALSE
  DupSubclassList = FALSE
  StrongExprTable = FALSE
SPECIFICATION Spec
INVARIANT TypeOK
INVARIANT C13
INVARIANT C14
INVARIANT C20reg
INVARIANT C20pin
INVARIANT C20same
INVARIANT RegistryComplete
