CONSTANTS
  Part = "tag"
  MaxDepth = 0
  SampleSize = 0
  NoTypeCheck = FALSE
  ImportOnlyNotFound = FALSE
  MroRegistryLookup = FALSE
  NoClassCheck = TRUE
SPECIFICATION Spec
INVARIANT OnlyDocumented
