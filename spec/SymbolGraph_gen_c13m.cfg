CONSTANTS
  MaxObj = 3
  MaxSteps = 5
  CreateClasses = {"Mid","Leaf"}
  QueryClasses = {"Base","Mid"}
  AllowClear = FALSE
  AllowRelate = FALSE
  AllowQueryX = FALSE
  AllowSweep = FALSE
  AllowDeclare = FALSE
  AllowDetach = FALSE
  AllowInfer = FALSE
  CopyModes = {"copy","deepcopy","replace","from_dao"}
  UnregisteredModes = {}
  Hist = TRUE
  PopIdOfNone = FALSE
  StaleRelationIndex = FALSE
  DupSubclassList = FALSE
  StrongExprTable = FALSE
SPECIFICATION Spec
CONSTRAINT Emit
