SPECIFICATION Spec
CONSTRAINT Emit
