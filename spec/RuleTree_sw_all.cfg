CONSTANTS
  MaxBranches = 3
  OnlyShapes = "all"
INIT Init
NEXT Next
INVARIANT Agree
