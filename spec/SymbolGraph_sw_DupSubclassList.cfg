CONSTANTS
  MaxObj = 3
  MaxSteps = 5
  CreateClasses = {"DD","DB1"}
  QueryClasses = {"DA","DB1"}
  AllowClear = FALSE
  AllowRelate = FALSE
  AllowQueryX = FALSE
  AllowSweep = TRUE
  AllowDeclare = FALSE
  AllowDetach = FALSE
  AllowInfer = FALSE
  CopyModes = {}
  UnregisteredModes = {}
  Hist = FALSE
  PopIdOfNone = FALSE
  StaleRelationIndex = FALSE
  DupSubclassList = TRUE
  StrongExprTable = FALSE
SPECIFICATION Spec
INVARIANT C13
