CONSTANTS
  Family = "optional"
  MaxDepth = 2
  SampleSize = 300
  NegUnionFlipsEach = FALSE
  NegNestedUnionFlips = FALSE
  FalsyObjs = {}
  OperandTruthFilter = FALSE
SPECIFICATION Spec
CONSTRAINT Emit
