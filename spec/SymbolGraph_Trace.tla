---- MODULE SymbolGraph_Trace ----
EXTENDS Naturals, Sequences, FiniteSets, TLC, Json, IOUtils
(***************************************************************************************************
 Trace validation (code -> spec) of the registry events emitted by hook H1
 (add_node / remove_node / add_relation / clear) against the implementation-shaped layer of
 SymbolGraph.tla: LIFO recycling of node indices, the relation index and the edge set.

 Every conjunct that can reject an event is tagged:
   shape:...  the event is not a step of the registry model (model drift, never a verdict on krrood)
   prop:...   the event contradicts C13 / C14 / C20 whatever the internal representation is
 A batch of traces is validated in one TLC run (tid chosen in Init); one JSON verdict line per trace.
 StaleRelationIndex = TRUE validates against the registry as pinned (relation index never purged).
 ***************************************************************************************************)
CONSTANT StaleRelationIndex
Traces == ndJsonDeserialize(IOEnv.TRACE_FILE)
VARIABLES tid, l, nodes, objOf, free, relIndex, edges, verdict
vars == <<tid, l, nodes, objOf, free, relIndex, edges, verdict>>
Ev == Traces[tid].ev
Cur == Ev[l]
Init == /\ tid \in 1..Len(Traces) /\ l = 1 /\ nodes = {} /\ objOf = <<>> /\ free = <<>> /\ relIndex = {} /\ edges = {} /\ verdict = "ok"
TakeIdx == IF free # <<>> THEN free[Len(free)] ELSE Cardinality(nodes) + Len(free)
Reject(v) == verdict' = v /\ UNCHANGED <<nodes, objOf, free, relIndex, edges>>
AddNode == /\ Cur.a = "add_node"
           /\ IF Cur.idx \in nodes THEN Reject("prop:C13 node index handed out twice")
              ELSE IF Cur.o # 0 /\ \E i \in nodes : objOf[i] = Cur.o THEN Reject("prop:C13 second node for an instance that is already registered")
              ELSE IF Cur.idx # TakeIdx \/ Cur.n # Cardinality(nodes) + 1 THEN Reject("shape:add_node")
              ELSE /\ nodes' = nodes \cup {Cur.idx}
                   /\ objOf' = [i \in (DOMAIN objOf) \cup {Cur.idx} |-> IF i = Cur.idx THEN Cur.o ELSE objOf[i]]
                   /\ free' = IF free # <<>> THEN SubSeq(free, 1, Len(free) - 1) ELSE free
                   /\ UNCHANGED <<relIndex, edges, verdict>>
RemoveNode == /\ Cur.a = "remove_node"
              /\ IF ~Cur.dead THEN Reject("prop:C13 wrapper of a live instance removed from the registry")
                 ELSE IF Cur.idx \notin nodes \/ Cur.n # Cardinality(nodes) - 1 THEN Reject("shape:remove_node")
                 ELSE /\ nodes' = nodes \ {Cur.idx}
                      /\ objOf' = [i \in (DOMAIN objOf) \ {Cur.idx} |-> objOf[i]]
                      /\ free' = Append(free, Cur.idx)
                      /\ edges' = { e \in edges : e[2] # Cur.idx /\ e[3] # Cur.idx }
                      /\ relIndex' = IF StaleRelationIndex THEN relIndex ELSE { e \in relIndex : e[2] # Cur.idx /\ e[3] # Cur.idx }
                      /\ UNCHANGED verdict
AddRelation == /\ Cur.a = "add_relation"
               /\ LET key == <<Cur.f, Cur.s, Cur.t>> IN
                  IF Cur.s \notin nodes \/ Cur.t \notin nodes THEN Reject("prop:C14 relation attached to a removed node")
                  ELSE IF Cur.live /\ ~Cur.added /\ key \notin edges THEN Reject("prop:C14 relation between live instances not recorded")
                  ELSE IF Cur.added /\ key \in edges THEN Reject("prop:C14 relation recorded twice")
                  ELSE IF Cur.added # (key \notin relIndex) THEN Reject("shape:add_relation")
                  ELSE /\ relIndex' = relIndex \cup {key} /\ edges' = edges \cup {key}
                       /\ UNCHANGED <<nodes, objOf, free, verdict>>
Clear == /\ Cur.a = "clear"
         /\ nodes' = {} /\ objOf' = <<>> /\ free' = <<>> /\ relIndex' = {} /\ edges' = {} /\ UNCHANGED verdict
Next == /\ verdict = "ok" /\ l <= Len(Ev)
        /\ (AddNode \/ RemoveNode \/ AddRelation \/ Clear)
        /\ l' = l + 1 /\ UNCHANGED tid
Spec == Init /\ [][Next]_vars
\* C20 (registry part) on every prefix: nothing refers to a removed node
C20reg == verdict = "ok" => (\A e \in edges : e[2] \in nodes /\ e[3] \in nodes)
                            /\ (StaleRelationIndex \/ \A e \in relIndex : e[2] \in nodes /\ e[3] \in nodes)
\* total verdicts: one line per trace, at its end (accepted) or at the first rejected event
Report == IF verdict # "ok" THEN PrintT(ToJson([t |-> Traces[tid].name, v |-> verdict, at |-> l - 1]))
          ELSE IF l = Len(Ev) + 1 THEN PrintT(ToJson([t |-> Traces[tid].name, v |-> "accepted", at |-> Len(Ev)])) ELSE TRUE
====
