CONSTANTS
  Model = "univ"
  MaxSteps = 2
  Hist = FALSE
  TransOnlyAsserted = FALSE
  TransOutOnly = FALSE
  NoInverseOfInferred = TRUE
  DirectSuperOnly = FALSE
SPECIFICATION Spec
INVARIANT ClosureReached
