CONSTANTS
  Model = "univ"
  MaxSteps = 2
  Hist = FALSE
  AllowDie = FALSE
  TransOnlyAsserted = FALSE
  TransOutOnly = FALSE
  NoInverseOfInferred = TRUE
  DirectSuperOnly = FALSE
SPECIFICATION Spec
INVARIANT ClosureReached
