INIT Init
NEXT Next
INVARIANT Monotone
CONSTRAINT Emit
