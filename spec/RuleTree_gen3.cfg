CONSTANTS
  MaxBranches = 3
  OnlyShapes = "all"
INIT Init
NEXT Next
CONSTRAINT Emit
