CONSTANTS
  MaxSteps = 5
  MaxLen = 5
  Hist = TRUE
  ClearBeforeCopy = FALSE
  CopyThroughSet = FALSE
  AliasedFirstAssignment = FALSE
  Churn = TRUE
  StaleReportedCache = FALSE
  UnhookedExtend = FALSE
SPECIFICATION Spec
INVARIANT Emit
