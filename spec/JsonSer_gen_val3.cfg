CONSTANTS
  Part = "value"
  MaxDepth = 3
  SampleSize = 3000
  NoTypeCheck = FALSE
  ImportOnlyNotFound = FALSE
  MroRegistryLookup = FALSE
  NoClassCheck = FALSE
SPECIFICATION Spec
CONSTRAINT EmitVal
