CONSTANTS
  MaxSteps = 2
  MaxLen = 4
  Hist = TRUE
  ClearBeforeCopy = FALSE
  CopyThroughSet = FALSE
  AliasedFirstAssignment = FALSE
  Churn = FALSE
  StaleReportedCache = FALSE
  UnhookedExtend = FALSE
SPECIFICATION Spec
CONSTRAINT Emit
