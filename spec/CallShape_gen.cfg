CONSTANT OffByOne = FALSE
SPECIFICATION Spec
CONSTRAINT Emit
