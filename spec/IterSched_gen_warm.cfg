CONSTANTS
  N = 3
  Its = {1, 2}
  MaxSteps = 8
  SharedDrain = TRUE
  Warm = TRUE
  Hist = TRUE
SPECIFICATION Spec
CONSTRAINT Emit
