CONSTANTS
  Part = "tag"
  MaxDepth = 0
  SampleSize = 0
  NoTypeCheck = FALSE
  ImportOnlyNotFound = FALSE
  MroRegistryLookup = TRUE
  NoClassCheck = FALSE
SPECIFICATION Spec
INVARIANT OnlyDocumented
