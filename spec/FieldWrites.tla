---- MODULE FieldWrites ----
EXTENDS Naturals, Sequences, FiniteSets, TLC, Json
(***************************************************************************************************
 C16 - every way of writing a descriptor-managed collection field keeps the data and infers alike.

 Subject `a` of the /verif family model with a list-valued managed field  knows  (inverse known_by, a
 set-valued managed field) - both written directly.  Elements b, c, d.
 Layer R: Python semantics of each write on the field contents; the fact base is monotone: every
          element that becomes part of a field is recorded (knows(a,x) with its inverse known_by(x,a),
          resp. known_by(a,x) with knows(x,a)), nothing is ever retracted, and the inverse fields of
          the elements hold exactly the inferred facts.
 Layer I: the setter of PropertyDescriptor (__set__): snapshot, clear, re-add; the monitored mutators.
          Deviation switches (FALSE = what the property needs, TRUE refuted by TLC):
            ClearBeforeCopy   the container is cleared before the new value is read (x.f = x.f, += erase)
            CopyThroughSet    the new value is copied through a set (order and repetitions lost)
            UnhookedExtend    extend/update insert without recording relations
            AliasedFirstAssignment  a managed container of another object given to the constructor (dataclasses.replace)
                              is adopted without recording the relations of its elements for the new owner
 Lazy views of the field's own contents (reversed(x.f), a generator over x.f, itertools.chain(x.f, [y])) are assignments
 whose value is evaluated while the setter runs: ClearBeforeCopy evaluates them against the emptied container.
 ***************************************************************************************************)
CONSTANTS MaxSteps, MaxLen, Hist, ClearBeforeCopy, CopyThroughSet, UnhookedExtend, AliasedFirstAssignment,
          Churn,               \* TRUE: before every write each element that is in neither field of `a` dies and is replaced by a
                               \* fresh object of the same name (short-lived elements on a long-lived owner): its facts go with it
          StaleReportedCache   \* deviation: elements are remembered by address as "already reported"; a fresh object at a
                               \* remembered address is stored but never recorded
VARIABLES lst, st, facts, ilst, ist, ifacts, steps, h, done, cache
vars == <<lst, st, facts, ilst, ist, ifacts, steps, h, done, cache>>
Elems == {"b", "c", "d"}
Seqs == UNION { [1..n -> Elems] : n \in 0..2 }
Sets == SUBSET Elems
SeqSet(s) == { s[i] : i \in DOMAIN s }
\* facts implied by the elements of the two fields of `a`
FactsOfListS(sub, s) == UNION { { <<"knows", sub, x>>, <<"known_by", x, sub>> } : x \in SeqSet(s) }
FactsOfSetS(sub, S) == UNION { { <<"known_by", sub, x>>, <<"knows", x, sub>> } : x \in S }
FactsOfList(s) == FactsOfListS("a", s)
FactsOfSet(S) == FactsOfSetS("a", S)
Rev(s) == [i \in DOMAIN s |-> s[Len(s) + 1 - i]]
InsertAt(s, i, x) == SubSeq(s, 1, i) \o <<x>> \o SubSeq(s, i + 1, Len(s))          \* list.insert(i, x), 0 <= i <= len
SetAt(s, i, x) == [s EXCEPT ![i + 1] = x]                                            \* s[i] = x
Slice(s, i, j, t) == SubSeq(s, 1, i) \o t \o SubSeq(s, j + 1, Len(s))                \* s[i:j] = t, i <= j
\* a duplicate-free ordering of a set in SOME order (what copying through a set leaves of a list)
Orders(S) == { s \in [1..Cardinality(S) -> S] : \A i, j \in DOMAIN s : i # j => s[i] # s[j] }

Init == /\ lst = <<>> /\ st = {} /\ facts = {} /\ ilst = <<>> /\ ist = {} /\ ifacts = {} /\ steps = 0 /\ h = <<>> /\ done = FALSE /\ cache = {}

\* ---- one write: R-level result (nl, ns) and I-level result (il, is, recorded elements)
\* facts that survive the churn before a write: those whose objects are all still referenced from a's fields
Kept(F, l, S) == IF Churn THEN { f \in F : {f[2], f[3]} \subseteq ({"a"} \cup SeqSet(l) \cup S) } ELSE F
Do(op, nl, ns, il, is, recL, recS) ==
  LET seen == IF StaleReportedCache THEN cache ELSE {}
      effL == SelectSeq(recL, LAMBDA x : x \notin seen)
      effS == recS \ seen
      nf == Kept(facts, lst, st) \cup FactsOfList(nl) \cup FactsOfSet(ns)
  IN
  /\ Len(nl) <= MaxLen
  /\ lst' = nl /\ st' = ns /\ facts' = nf
  /\ ilst' = il /\ ist' = is /\ ifacts' = Kept(ifacts, ilst, ist) \cup FactsOfList(effL) \cup FactsOfSet(effS)
  /\ cache' = cache \cup SeqSet(recL) \cup recS
  /\ steps' = steps + 1 /\ done' = FALSE
  /\ h' = IF Hist THEN Append(h, [op |-> op, lst |-> nl, st |-> ns, facts |-> nf]) ELSE h
\* the setter applied to a new value v (a sequence) while the container currently holds cur
SetterList(cur, v, selfref) ==
  LET src == IF selfref /\ ClearBeforeCopy THEN <<>> ELSE v
  IN IF CopyThroughSet THEN Orders(SeqSet(src)) ELSE {src}
AssignL(s) == \E r \in SetterList(ilst, s, FALSE) : Do([k |-> "assign_list", v |-> s], s, st, r, ist, r, {})
SelfAssignL == \E r \in SetterList(ilst, ilst, TRUE) : Do([k |-> "self_assign_list"], lst, st, r, ist, r, {})
IAddL(s) == \* tmp = list.__iadd__(field, s)  ;  field = tmp  (the same container object)
            \E r \in SetterList(ilst \o s, ilst \o s, TRUE) : Do([k |-> "iadd_list", v |-> s], lst \o s, st, r, ist, r, {})
\* a.knows = <lazy view of a.knows>: reversed(a.knows) | (e for e in a.knows) | itertools.chain(a.knows, [x])
View(kind, cur, x) == CASE kind = "reversed" -> Rev(cur) [] kind = "gen" -> cur [] OTHER -> Append(cur, x)
AssignViewL(kind, x) ==
  LET nl == View(kind, lst, x)
      il == View(kind, IF ClearBeforeCopy THEN <<>> ELSE ilst, x)
  IN \E r \in (IF CopyThroughSet THEN Orders(SeqSet(il)) ELSE {il}) :
        Do([k |-> "assign_view_list", view |-> kind, x |-> x], nl, st, r, ist, r, {})
AssignViewS(kind, x) ==
  LET ns == IF kind = "chain" THEN st \cup {x} ELSE st
      cur == IF ClearBeforeCopy THEN {} ELSE ist
      is == IF kind = "chain" THEN cur \cup {x} ELSE cur
  IN Do([k |-> "assign_view_set", view |-> kind, x |-> x], lst, ns, ilst, is, <<>>, is)
\* a2 = dataclasses.replace(a, name="a2"): the constructor of the new object receives a's managed containers as first values
\* of its own fields.  R: a2's fields hold the same elements and every element is related to a2 as well.  Only as the last
\* write (whether the two objects share later in-place writes is not this property's business).
Replace ==
  /\ steps = MaxSteps - 1 /\ ~Churn
  /\ lst' = lst /\ st' = st /\ ilst' = ilst /\ ist' = ist
  /\ facts' = facts \cup FactsOfListS("a2", lst) \cup FactsOfSetS("a2", st)
  /\ ifacts' = IF AliasedFirstAssignment THEN ifacts ELSE ifacts \cup FactsOfListS("a2", ilst) \cup FactsOfSetS("a2", ist)
  /\ steps' = steps + 1 /\ done' = FALSE /\ UNCHANGED cache
  /\ h' = IF Hist THEN Append(h, [op |-> [k |-> "replace"], lst |-> lst, st |-> st, facts |-> facts']) ELSE h
AppendL(x) == Do([k |-> "append", x |-> x], Append(lst, x), st, Append(ilst, x), ist, <<x>>, {})
ExtendL(s) == Do([k |-> "extend", v |-> s], lst \o s, st, ilst \o s, ist, IF UnhookedExtend THEN <<>> ELSE s, {})
InsertL(i, x) == i <= Len(lst) /\ i <= Len(ilst)
                 /\ Do([k |-> "insert", i |-> i, x |-> x], InsertAt(lst, i, x), st, InsertAt(ilst, i, x), ist, <<x>>, {})
SetItemL(i, x) == i < Len(lst) /\ i < Len(ilst)
                  /\ Do([k |-> "setitem", i |-> i, x |-> x], SetAt(lst, i, x), st, SetAt(ilst, i, x), ist, <<x>>, {})
SetSliceL(i, j, s) == i <= j /\ j <= Len(lst) /\ j <= Len(ilst)
                      /\ Do([k |-> "setslice", i |-> i, j |-> j, v |-> s], Slice(lst, i, j, s), st, Slice(ilst, i, j, s), ist, s, {})
SetterSet(v, selfref) == IF selfref /\ ClearBeforeCopy THEN {} ELSE v
AssignS(S) == Do([k |-> "assign_set", v |-> S], lst, S, ilst, SetterSet(S, FALSE), <<>>, SetterSet(S, FALSE))
SelfAssignS == Do([k |-> "self_assign_set"], lst, st, ilst, SetterSet(ist, TRUE), <<>>, SetterSet(ist, TRUE))
IOrS(S) == Do([k |-> "ior_set", v |-> S], lst, st \cup S, ilst, SetterSet(ist \cup S, TRUE), <<>>, SetterSet(ist \cup S, TRUE))
AddS(x) == Do([k |-> "add", x |-> x], lst, st \cup {x}, ilst, ist \cup {x}, <<>>, {x})
UpdateS(S) == Do([k |-> "update", v |-> S], lst, st \cup S, ilst, ist \cup S, <<>>, IF UnhookedExtend THEN {} ELSE S)

\* removals: the data follows Python semantics; relations are never retracted (the fact base is monotone), nothing is recorded
RemoveAt(s, i) == SubSeq(s, 1, i - 1) \o SubSeq(s, i + 1, Len(s))                    \* 1-based position
FirstPos(s, x) == CHOOSE i \in DOMAIN s : s[i] = x /\ \A j \in 1..(i - 1) : s[j] # x
RemoveL(x) == x \in SeqSet(lst) /\ x \in SeqSet(ilst)
              /\ Do([k |-> "remove", x |-> x], RemoveAt(lst, FirstPos(lst, x)), st, RemoveAt(ilst, FirstPos(ilst, x)), ist, <<>>, {})
PopL == lst # <<>> /\ ilst # <<>> /\ Do([k |-> "pop"], RemoveAt(lst, Len(lst)), st, RemoveAt(ilst, Len(ilst)), ist, <<>>, {})
DelItemL(i) == i < Len(lst) /\ i < Len(ilst) /\ Do([k |-> "delitem", i |-> i], RemoveAt(lst, i + 1), st, RemoveAt(ilst, i + 1), ist, <<>>, {})
ClearL == lst # <<>> /\ Do([k |-> "clear_list"], <<>>, st, <<>>, ist, <<>>, {})
DiscardS(x) == Do([k |-> "discard", x |-> x], lst, st \ {x}, ilst, ist \ {x}, <<>>, {})
ClearS == st # {} /\ Do([k |-> "clear_set"], lst, {}, ilst, {}, <<>>, {})

\* the behaviour is complete: a single successor, so that generator configs print each behaviour once even in
\* simulation mode (TLC evaluates constraints/invariants on every candidate successor)
Finish == steps = MaxSteps /\ ~done /\ done' = TRUE /\ UNCHANGED <<lst, st, facts, ilst, ist, ifacts, steps, h, cache>>
Write == /\ steps < MaxSteps
         /\ \/ \E s \in Seqs : AssignL(s) \/ IAddL(s) \/ ExtendL(s)
            \/ SelfAssignL
            \/ \E x \in Elems : AppendL(x) \/ AddS(x)
            \/ \E i \in 0..MaxLen, x \in Elems : InsertL(i, x) \/ SetItemL(i, x)
            \/ \E i \in 0..MaxLen, j \in 0..MaxLen, s \in Seqs : SetSliceL(i, j, s)
            \/ \E S \in Sets : AssignS(S) \/ IOrS(S) \/ UpdateS(S)
            \/ SelfAssignS
            \/ \E x \in Elems : RemoveL(x) \/ DiscardS(x)
            \/ PopL \/ ClearL \/ ClearS
            \/ \E i \in 0..MaxLen : DelItemL(i)
            \/ \E kind \in {"reversed", "gen", "chain"}, x \in Elems : (kind = "chain" \/ x = "b") /\ (AssignViewL(kind, x) \/ AssignViewS(kind, x))
            \/ Replace
Next == Finish \/ Write
Spec == Init /\ [][Next]_vars

\* ---- properties: the implementation-shaped write keeps the data and records every element
KeepsData == ilst = lst /\ ist = st
InfersAlike == ifacts = facts
Monotone == [][Churn \/ (facts \subseteq facts' /\ ifacts \subseteq ifacts')]_vars
Emit == IF Hist /\ done THEN PrintT(ToJson([h |-> h])) ELSE TRUE
====
