CONSTANTS
  Model = "univ"
  MaxSteps = 3
  Hist = FALSE
  AllowDie = FALSE
  TransOnlyAsserted = TRUE
  TransOutOnly = FALSE
  NoInverseOfInferred = FALSE
  DirectSuperOnly = FALSE
SPECIFICATION Spec
INVARIANT ClosureReached
