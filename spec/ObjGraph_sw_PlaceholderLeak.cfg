CONSTANTS
  PlaceholderLeak = TRUE
  SampleSize = 0
SPECIFICATION Spec
INVARIANT RoundTripIso
