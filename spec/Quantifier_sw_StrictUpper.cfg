CONSTANTS
  MaxN = 6
  MinB <- MinusOne
  MaxB = 5
  CheckOnlyAtEnd = FALSE
  StrictUpper = TRUE
  SkipFinal = FALSE
SPECIFICATION Spec
INVARIANT TypeOK
INVARIANT NeverAboveUpper
INVARIANT OutcomeMatches
INVARIANT PrefixAlways
PROPERTY CountMonotone
