---- MODULE ClassModel ----
EXTENDS Naturals, Sequences, FiniteSets, TLC, Json, Randomization
(***************************************************************************************************
 C17 / C06 - class diagrams mirror the classes; ORMatic produces a valid, complete SQLAlchemy layer.

 A model is three dataclasses K1, K2, K3 (K2 optionally a subclass of K1, K3 optionally a subclass of K1
 or K2) with up to MaxF fields each.  A field is [k |-> kind, t |-> target]:
   scalar kinds  int str bool optfloat dt optdt enum optenum liststr     (t = "-")
   reference kinds (t = a class of the model)  ref optref list set      and for C17 also  seq  typ
   priv = a field whose name starts with an underscore;  refout = reference to a class outside the model
 Layer R:
   Diagram  - one node per class, an inheritance edge per direct-base pair, an association edge for every
              public field (inherited ones included) whose declared type, seen through Optional and container
              wrappers, is a class of the model;  Flags(field) - the classification its annotation dictates.
   Schema   - a DAO per class whose base is the DAO of its base class (or Base), a column for every public
              scalar / enum / datetime / list-of-builtins field declared in THAT class, a nullable <name>_id
              foreign key + a scalar relationship for every reference, an association table + a list
              relationship for every collection of a mapped class (visible on subclasses too), nothing for
              private fields and for references to unmapped classes.
 TLC enumerates / samples models and evaluates Diagram and Schema; the replayer synthesises the dataclass
 module, runs ClassDiagram and ORMatic from the working tree and compares.
 ***************************************************************************************************)
CONSTANTS MaxF, SampleSize, ForORM       \* ForORM = TRUE: only kinds the ORM documentation lists
VARIABLES b2, b3, f1, f2, f3, u2, u3, role
vars == <<b2, b3, f1, f2, f3, u2, u3, role>>
Classes == {"K1", "K2", "K3"}
Scalar == {"int", "str", "bool", "optfloat", "dt", "optdt", "enum", "optenum", "liststr"}
RefKinds == IF ForORM THEN {"ref", "optref", "list", "set"} ELSE {"ref", "optref", "list", "set", "seq", "typ"}
Other == IF ForORM THEN {"priv"} ELSE {"priv", "refout"}
Field == { [k |-> kk, t |-> "-"] : kk \in Scalar \cup Other } \cup { [k |-> kk, t |-> tt] : kk \in RefKinds, tt \in Classes }
FieldSeqs == UNION { [1..n -> Field] : n \in 0..MaxF }
\* the full product is too large to build: each class draws its field list from an independent random sample
\* u2 / u3: the class derives from its base THROUGH an intermediate class that is not part of the model (not given to ClassDiagram /
\* ORMatic) and declares one scalar field of its own (hb / hc): the mapped base is then no direct base
Init == \E t \in RandomSubset(SampleSize, {"-", "K1"} \X {"-", "K1", "K2"} \X RandomSubset(25, FieldSeqs) \X RandomSubset(25, FieldSeqs)
                                             \X RandomSubset(25, FieldSeqs) \X {0, 1} \X {0, 1} \X {0, 1}) :
           /\ b2 = t[1] /\ b3 = t[2] /\ f1 = t[3] /\ f2 = t[4] /\ f3 = t[5]
           /\ u2 = (t[6] = 0 /\ t[1] # "-") /\ u3 = (t[7] = 0 /\ t[2] # "-")
           \* role: K3 is a Role[K1] (role design pattern) with two mandatory one-to-one fields in front of its other fields:
           \*       rtc : K1 (the role taker) and rec : K2 (another mandatory reference); only for the diagram (C17)
           /\ role = (t[8] = 0 /\ t[2] = "-" /\ ~ForORM)
Next == FALSE /\ UNCHANGED vars
Spec == Init /\ [][Next]_vars

FieldsOf(c) == CASE c = "K1" -> f1 [] c = "K2" -> f2 [] OTHER -> f3
BaseOf(c) == CASE c = "K1" -> "-" [] c = "K2" -> b2 [] OTHER -> b3
Suffix(c) == CASE c = "K1" -> "a" [] c = "K2" -> "b" [] OTHER -> "c"
Name(c, i) == "f" \o ToString(i) \o Suffix(c)              \* unique along every inheritance chain
RECURSIVE Ancestors(_)
Ancestors(c) == IF BaseOf(c) = "-" THEN {} ELSE {BaseOf(c)} \cup Ancestors(BaseOf(c))
IsRef(k) == k \in {"ref", "optref", "list", "set", "seq", "typ"}
\* ---- C17
OwnAssoc(c) == { <<c, Name(c, i), FieldsOf(c)[i].t>> : i \in { j \in DOMAIN FieldsOf(c) : IsRef(FieldsOf(c)[j].k) } }
               \cup (IF role /\ c = "K3" THEN { <<"K3", "rtc", "K1">>, <<"K3", "rec", "K2">> } ELSE {})
Assoc(c) == { <<c, a[2], a[3]>> : a \in OwnAssoc(c) \cup UNION { OwnAssoc(x) : x \in Ancestors(c) } }
Via(c) == CASE c = "K2" -> u2 [] c = "K3" -> u3 [] OTHER -> FALSE
Diagram == [inherit |-> { <<BaseOf(c), c>> : c \in { x \in Classes : BaseOf(x) # "-" /\ ~Via(x) } },      \* direct bases only
            assoc |-> UNION { Assoc(c) : c \in Classes }]
\* the derived view "without inherited associations": an association of c is dropped when an ancestor of c already has one with
\* the same key - the target class, or (named) the target class and the field name
SubAssoc(named) == UNION { { a \in Assoc(c) : ~\E x \in Ancestors(c) : \E a2 \in Assoc(x) : a2[3] = a[3] /\ (~named \/ a2[2] = a[2]) } : c \in Classes }
\* parallel association edges (two fields of one class with the same target) make the unnamed view depend on edge order
Parallel == \E c \in Classes : \E a, a2 \in Assoc(c) : a # a2 /\ a[3] = a2[3]
Flags(k) == [builtin |-> k \in {"int", "str", "bool", "optfloat", "dt", "optdt", "liststr"},
             optional |-> k \in {"optfloat", "optdt", "optenum", "optref"},
             enum |-> k \in {"enum", "optenum"},
             container |-> k \in {"liststr", "list", "set", "seq"},
             one_to_one |-> k \in {"ref", "optref", "refout"},
             one_to_many |-> k \in {"list", "set", "seq"},
             type_type |-> k = "typ"]
Fields == { [c |-> c, name |-> (IF FieldsOf(c)[i].k = "priv" THEN "_" ELSE "") \o Name(c, i), kind |-> FieldsOf(c)[i].k,
             flags |-> Flags(FieldsOf(c)[i].k)] : <<c, i>> \in { p \in Classes \X (1..MaxF) : p[2] <= Len(FieldsOf(p[1])) } }
\* ---- C06
ColKind(k) == CASE k = "int" -> "Integer" [] k = "str" -> "String" [] k = "bool" -> "Boolean" [] k = "optfloat" -> "Float"
                [] k \in {"dt", "optdt"} -> "DateTime" [] k \in {"enum", "optenum"} -> "Enum" [] k = "liststr" -> "JSON"
Nullable(k) == k \in {"optfloat", "optdt", "optenum"}
Cols(c) == { [name |-> Name(c, i), type |-> ColKind(FieldsOf(c)[i].k), nullable |-> Nullable(FieldsOf(c)[i].k)]
             : i \in { j \in DOMAIN FieldsOf(c) : FieldsOf(c)[j].k \in Scalar } }
        \cup { [name |-> Name(c, i) \o "_id", type |-> "Integer", nullable |-> TRUE]
             : i \in { j \in DOMAIN FieldsOf(c) : FieldsOf(c)[j].k \in {"ref", "optref"} } }
        \* the field of the unmapped intermediate class becomes a column of the first mapped class below it
        \cup (IF Via(c) THEN { [name |-> "h" \o Suffix(c), type |-> "Integer", nullable |-> FALSE] } ELSE {})
OwnRels(c) == { [name |-> Name(c, i), target |-> FieldsOf(c)[i].t, uselist |-> FieldsOf(c)[i].k \in {"list", "set"}]
                : i \in { j \in DOMAIN FieldsOf(c) : FieldsOf(c)[j].k \in {"ref", "optref", "list", "set"} } }
Rels(c) == OwnRels(c) \cup UNION { OwnRels(x) : x \in Ancestors(c) }
Schema == [c \in Classes |-> [base |-> BaseOf(c), cols |-> Cols(c), rels |-> Rels(c)]]
\* shapes with an open finding (reported, attributed by this signature): a collection of the class's own type
OwnTypeCollection == \E c \in Classes : \E i \in DOMAIN FieldsOf(c) : FieldsOf(c)[i].k \in {"list", "set"} /\ FieldsOf(c)[i].t = c
\* sanity of the reference
RefSane == /\ \A c \in Classes : \A r \in Rels(c) : r.target \in Classes
           /\ \A c \in Classes : c \notin Ancestors(c)
Emit == PrintT(ToJson([b2 |-> b2, b3 |-> b3, f1 |-> f1, f2 |-> f2, f3 |-> f3, u2 |-> u2, u3 |-> u3, role |-> role, fields |-> Fields, diagram |-> Diagram,
                       sub |-> SubAssoc(FALSE), sub_named |-> SubAssoc(TRUE), parallel |-> Parallel,
                       schema |-> Schema, own_type_collection |-> OwnTypeCollection]))
====
