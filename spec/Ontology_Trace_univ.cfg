CONSTANTS
  Model = "univ"
  MaxSteps = 0
  Hist = FALSE
  AllowDie = FALSE
  TransOnlyAsserted = FALSE
  TransOutOnly = FALSE
  NoInverseOfInferred = FALSE
  DirectSuperOnly = FALSE
SPECIFICATION TSpec
CONSTRAINT Report
