SPECIFICATION Spec
INVARIANT Covered
CONSTRAINT Emit
