CONSTANT CollapsePartners = FALSE
SPECIFICATION Spec
INVARIANT SameBag
