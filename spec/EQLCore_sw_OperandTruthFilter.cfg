CONSTANTS
  Family = "logic"
  MaxDepth = 2
  SampleSize = 600
  NegUnionFlipsEach = FALSE
  NegNestedUnionFlips = FALSE
  FalsyObjs = {"o1", "o2", "o3", "o4"}
  OperandTruthFilter = TRUE
SPECIFICATION Spec
INVARIANT EngineSound
INVARIANT RefSane
