CONSTANTS
  MaxF = 2
  SampleSize = 300
  ForORM = TRUE
SPECIFICATION Spec
INVARIANT RefSane
CONSTRAINT Emit
