---- MODULE EQLTerms ----
EXTENDS Naturals, Sequences, FiniteSets, TLC, Json
(***************************************************************************************************
 C01 - conditions over DERIVED TERMS of a variable, on EQLCore's world (o1..o4 with a, b):
    x.pair[1]            indexing into a tuple-valued attribute   pair = (a, b)
    x.twice_a()          a method call without arguments          = 2 * a
    x.plus(1)            a method call with a literal argument    = a + 1
    s                    a nested query used as a variable:  s = an(entity(z, z.a == 0))  with z over all objects
    x.a  (bare)          a truth-valued attribute used directly as a condition, also next to comparisons over the same attribute
 Layer R: the satisfying assignments of (x, y, s) with s ranging over the answers of the nested query.
 ***************************************************************************************************)
VARIABLE cond
Objs == {"o1", "o2", "o3", "o4"}
AttrOf == [o \in Objs |-> CASE o = "o1" -> [a |-> 0, b |-> 0] [] o = "o2" -> [a |-> 0, b |-> 1]
                            [] o = "o3" -> [a |-> 1, b |-> 0] [] OTHER -> [a |-> 1, b |-> 1]]
SeqToSet(s) == { s[i] : i \in DOMAIN s }
SubAnswers == { o \in Objs : AttrOf[o].a = 0 }           \* an(entity(z, z.a == 0))
L(c) == <<"lit", c>>
Cmp(op, s, t) == <<"cmp", op, s, t>>
TAtoms == { Cmp("eq", <<"index", "x", "pair", 1>>, L(1)), Cmp("eq", <<"index", "x", "pair", 0>>, <<"index", "y", "pair", 1>>),
            Cmp("eq", <<"call", "x", "twice_a">>, L(2)), Cmp("ge", <<"call1", "x", "plus", 1>>, L(2)),
            Cmp("lt", <<"call", "y", "twice_a">>, <<"call1", "x", "plus", 1>>),
            Cmp("eq", <<"attr", "s", "b">>, <<"attr", "x", "b">>), Cmp("ne", <<"var", "x">>, <<"var", "s">>),
            \* two components of the SAME stored tuple (pos = <<a, b>>, a stored attribute, not a computed one) / two method
            \* results of the same object compared with each other
            Cmp("eq", <<"index", "x", "pos", 0>>, <<"index", "x", "pos", 1>>), Cmp("ne", <<"call", "x", "twice_a">>, <<"call1", "x", "plus", 1>>) }
\* a truth-valued attribute used directly as a condition:  x.a  holds iff the value is truthy (a, b are 0 / 1)
TruthAtoms == { <<"truth", <<"attr", "x", "a">> >>, <<"truth", <<"attr", "y", "b">> >> }
OtherAtoms == { Cmp("eq", <<"attr", "x", "a">>, L(0)), Cmp("eq", <<"attr", "y", "b">>, L(1)), Cmp("eq", <<"attr", "x", "a">>, <<"attr", "y", "b">>),
                Cmp("ge", <<"attr", "x", "a">>, <<"attr", "x", "b">>) }
\* == / != between two COLLECTION values (the tuple-valued attribute pair = (a, b)): ordinary reading = equality of the sequences
CollAtoms == { Cmp("eq", <<"attr", "x", "pair">>, <<"tlit", <<0, 1>> >>), Cmp("ne", <<"attr", "x", "pair">>, <<"tlit", <<1, 0>> >>),
               Cmp("eq", <<"attr", "x", "pair">>, <<"attr", "y", "pair">>) }
Lits == TAtoms \cup TruthAtoms \cup CollAtoms \cup { <<"not", p>> : p \in TAtoms \cup TruthAtoms \cup CollAtoms }
Conds == Lits \cup { <<"and", p, q>> : p \in Lits, q \in Lits \cup OtherAtoms } \cup { <<"and", q, p>> : p \in Lits, q \in OtherAtoms }
              \cup { <<"or", p, q>> : p \in Lits, q \in Lits \cup OtherAtoms }
TermVal(t, g) == CASE t[1] = "lit" -> t[2] [] t[1] = "var" -> g[t[2]]
                   [] t[1] = "tlit" -> t[2]
                   [] t[1] = "attr" -> (IF t[3] = "pair" THEN <<AttrOf[g[t[2]]].a, AttrOf[g[t[2]]].b>> ELSE AttrOf[g[t[2]]][t[3]])
                   [] t[1] = "index" -> (IF t[4] = 0 THEN AttrOf[g[t[2]]].a ELSE AttrOf[g[t[2]]].b)
                   [] t[1] = "call" -> 2 * AttrOf[g[t[2]]].a
                   [] OTHER -> AttrOf[g[t[2]]].a + t[4]
Apply(op, l, r) == CASE op = "eq" -> l = r [] op = "ne" -> l # r [] op = "lt" -> l < r [] OTHER -> l >= r
RECURSIVE Sat(_, _)
Sat(e, g) == CASE e[1] = "cmp" -> Apply(e[2], TermVal(e[3], g), TermVal(e[4], g))
               [] e[1] = "truth" -> TermVal(e[2], g) # 0
               [] e[1] = "and" -> Sat(e[2], g) /\ Sat(e[3], g)
               [] e[1] = "or" -> Sat(e[2], g) \/ Sat(e[3], g)
               [] OTHER -> ~Sat(e[2], g)
RECURSIVE VarsOf(_)
VarsOf(e) == CASE e[1] \in {"lit", "tlit"} -> {} [] e[1] \in {"var", "attr", "index", "call", "call1"} -> {e[2]}
               [] e[1] = "cmp" -> VarsOf(e[3]) \cup VarsOf(e[4])
               [] e[1] \in {"not", "truth"} -> VarsOf(e[2]) [] OTHER -> VarsOf(e[2]) \cup VarsOf(e[3])
Doms == { <<"o3">>, <<"o1", "o2", "o3", "o4">>, <<"o4", "o2", "o1">> }
\* x is always selected; y in addition when the condition mentions it (a union that leaves a selected variable unbound is F02's business)
SelOf(e) == IF "y" \in VarsOf(e) THEN { <<"x">>, <<"x", "y">> } ELSE { <<"x">> }
\* an or_ whose operands range over different variable sets is a union (each operand evaluated separately): generated only when
\* both operands mention the same variables
SameVars(e) == e[1] # "or" \/ VarsOf(e[2]) = VarsOf(e[3])
Asgs(e, dx, dy) == { g \in [{"x", "y", "s"} -> Objs] :
                       /\ g["x"] \in SeqToSet(dx)
                       /\ (IF "y" \in VarsOf(e) THEN g["y"] \in SeqToSet(dy) ELSE g["y"] = "o1")
                       /\ (IF "s" \in VarsOf(e) THEN g["s"] \in SubAnswers ELSE g["s"] = "o1")
                       /\ Sat(e, g) }
Answers(e, dx, dy, sel) == { [i \in DOMAIN sel |-> g[sel[i]]] : g \in Asgs(e, dx, dy) }
Init == cond \in { c \in Conds : SameVars(c) }
Next == FALSE /\ UNCHANGED cond
Spec == Init /\ [][Next]_cond
Emit == PrintT(ToJson([cond |-> cond,
                       cases |-> { [dx |-> dx, dy |-> dy, sel |-> sel, exp |-> Answers(cond, dx, dy, sel)] : dx \in Doms, dy \in Doms, sel \in SelOf(cond) }]))
====
