CONSTANTS
  MaxObj = 3
  MaxSteps = 6
  CreateClasses = {"Mid","Leaf","DD"}
  QueryClasses = {"Base","Mid","DA","DB1"}
  AllowClear = TRUE
  AllowRelate = FALSE
  AllowQueryX = FALSE
  AllowSweep = FALSE
  AllowDeclare = FALSE
  AllowDetach = FALSE
  AllowInfer = FALSE
  CopyModes = {}
  UnregisteredModes = {}
  Hist = TRUE
  PopIdOfNone = FALSE
  StaleRelationIndex = FALSE
  DupSubclassList = FALSE
  StrongExprTable = FALSE
SPECIFICATION Spec
CONSTRAINT Emit
