CONSTANTS
  MaxF = 2
  SampleSize = 4000
  ForORM = FALSE
SPECIFICATION Spec
INVARIANT RefSane
CONSTRAINT Emit
