CONSTANTS
  Family = "access"
  MaxDepth = 3
  SampleSize = 1500
  NegUnionFlipsEach = FALSE
  NegNestedUnionFlips = FALSE
  FalsyObjs = {}
  OperandTruthFilter = FALSE
SPECIFICATION Spec
CONSTRAINT Emit
