CONSTANTS
  MaxBranches = 4
  OnlyShapes = "all"
INIT Init
NEXT Next
CONSTRAINT Emit
