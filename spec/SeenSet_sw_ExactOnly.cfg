CONSTANTS
  MaxSteps = 5
  WithKeys = TRUE
  ExactOnly = TRUE
  ClearKeepsAll = FALSE
  Hist = FALSE
SPECIFICATION Spec
INVARIANT Agree
