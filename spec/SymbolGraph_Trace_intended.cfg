CONSTANT StaleRelationIndex = FALSE
SPECIFICATION Spec
INVARIANT C20reg
CONSTRAINT Report
