CONSTANTS
  MaxN = 6
  MinB <- MinusOne
  MaxB = 5
  CheckOnlyAtEnd = TRUE
  StrictUpper = FALSE
  SkipFinal = FALSE
SPECIFICATION Spec
INVARIANT TypeOK
INVARIANT NeverAboveUpper
INVARIANT OutcomeMatches
INVARIANT PrefixAlways
PROPERTY CountMonotone
