CONSTANTS
  MaxSteps = 2
  MaxLen = 4
  Hist = FALSE
  ClearBeforeCopy = FALSE
  CopyThroughSet = FALSE
  UnhookedExtend = TRUE
SPECIFICATION Spec
INVARIANT InfersAlike
