---- MODULE SeenSet ----
EXTENDS Naturals, Sequences, FiniteSets, TLC, Json
(***************************************************************************************************
 C08 (component) - the coverage index `SeenSet` (cache_data.py) that the rule selectors use to decide
 whether a conclusion was already made for a binding (update_conclusion / concluded_before) and that
 every expression uses for its per-parent seen values.

 A partial assignment is a function from a subset of Keys to Vals.
 Layer R: `stored` = the set of constraints added since the last clear; an assignment A is COVERED iff
          some stored constraint C is a sub-assignment of A (C \subseteq A as sets of pairs).  The empty
          assignment: add({}) covers everything; check({}) answers FALSE the first time and marks
          everything as seen from then on (documented: "allow population").
 Layer I: the list `constraints`, the exact-tuple set (only maintained when the index was created with
          `keys` and the assignment has them all), the flag all_seen.  Deviation switches (refuted):
            ExactOnly      check consults only the exact-tuple set when keys are configured
            ClearKeepsAll  clear() leaves all_seen set
 ***************************************************************************************************)
CONSTANTS MaxSteps, WithKeys, ExactOnly, ClearKeepsAll, Hist
VARIABLES stored, seenAll, cons, exact, allSeen, last, steps, h
vars == <<stored, seenAll, cons, exact, allSeen, last, steps, h>>
Keys == {"a", "b"}
Vals == {0, 1}
PAsg == UNION { [D -> Vals] : D \in SUBSET Keys }
Sub(c, a) == DOMAIN c \subseteq DOMAIN a /\ \A k \in DOMAIN c : c[k] = a[k]
Empty == << >>
IsEmpty(a) == DOMAIN a = {}
Full(a) == DOMAIN a = Keys
Init == stored = {} /\ seenAll = FALSE /\ cons = {} /\ exact = {} /\ allSeen = FALSE /\ last = <<"-", FALSE, FALSE>> /\ steps = 0 /\ h = <<>>
Log(op, a, r) == h' = IF Hist THEN Append(h, [op |-> op, a |-> [k \in DOMAIN a |-> a[k]], keys |-> DOMAIN a, r |-> r]) ELSE h
Add(a) ==
  /\ stored' = IF seenAll THEN stored ELSE IF IsEmpty(a) THEN stored ELSE stored \cup {a}
  /\ seenAll' = (seenAll \/ IsEmpty(a))
  /\ IF allSeen THEN UNCHANGED <<cons, exact, allSeen>>
     ELSE IF IsEmpty(a) THEN allSeen' = TRUE /\ UNCHANGED <<cons, exact>>
     ELSE /\ cons' = cons \cup {a} /\ UNCHANGED allSeen
          /\ exact' = IF WithKeys /\ Full(a) THEN exact \cup {a} ELSE exact
  /\ last' = <<"add", FALSE, FALSE>> /\ Log("add", a, FALSE)
CoveredR(a) == seenAll \/ (~IsEmpty(a) /\ \E c \in stored : Sub(c, a))
CoveredI(a) == IF allSeen THEN TRUE
               ELSE IF IsEmpty(a) THEN FALSE
               ELSE IF WithKeys /\ Full(a) /\ a \in exact THEN TRUE
               ELSE IF ExactOnly /\ WithKeys THEN FALSE
               ELSE \E c \in cons : Sub(c, a)
Check(a) ==
  /\ last' = <<"check", CoveredR(a), CoveredI(a)>>
  /\ seenAll' = (seenAll \/ IsEmpty(a)) /\ allSeen' = (allSeen \/ IsEmpty(a))
  /\ UNCHANGED <<stored, cons, exact>>
  /\ Log("check", a, CoveredR(a))
Clear ==
  /\ stored' = {} /\ seenAll' = FALSE /\ cons' = {} /\ exact' = {}
  /\ allSeen' = (ClearKeepsAll /\ allSeen)
  /\ last' = <<"clear", FALSE, FALSE>> /\ Log("clear", Empty, FALSE)
Next == steps < MaxSteps /\ steps' = steps + 1 /\ ((\E a \in PAsg : Add(a) \/ Check(a)) \/ Clear)
Spec == Init /\ [][Next]_vars
Agree == last[1] = "check" => last[2] = last[3]
Emit == IF Hist /\ steps = MaxSteps THEN PrintT(ToJson([h |-> h, with_keys |-> WithKeys])) ELSE TRUE
====
