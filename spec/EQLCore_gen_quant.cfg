CONSTANTS
  Family = "quant"
  MaxDepth = 2
  SampleSize = 2500
  NegUnionFlipsEach = FALSE
  NegNestedUnionFlips = FALSE
  FalsyObjs = {}
  OperandTruthFilter = FALSE
SPECIFICATION Spec
CONSTRAINT Emit
