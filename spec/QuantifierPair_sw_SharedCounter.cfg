CONSTANTS
  MaxN = 3
  MaxB = 3
  SharedCounter = TRUE
SPECIFICATION Spec
INVARIANT EachAlone
