CONSTANTS
  Family = "logic"
  MaxDepth = 3
  SampleSize = 1200
  NegUnionFlipsEach = FALSE
  NegNestedUnionFlips = TRUE
  FalsyObjs = {}
  OperandTruthFilter = FALSE
SPECIFICATION Spec
INVARIANT EngineSound
INVARIANT RefSane
