---- MODULE IterSched ----
EXTENDS Naturals, Sequences, FiniteSets, TLC, Json
(***************************************************************************************************
 C03 - evaluations are repeatable and do not interfere.

 K iterators (evaluations) over ONE variable's domain: a one-shot source of N elements wrapped in
 krrood's HashedIterable (replay cache + shared source).  Every query in this family lets every domain
 element through, so the k-th value an evaluation returns is the k-th domain element.
 Layer R: every evaluation yields 1..N and then stops - whatever the others do (C03 as an invariant
          over the history).
 Layer I: SharedDrain = FALSE  private cursor into the cache, the source is advanced only at the end
                               of the cache (what the property needs);
          SharedDrain = TRUE   as implemented: replay of the cache through a dict-values iterator that
                               is created at the first next() and breaks (RuntimeError) when another
                               evaluation grew the cache, then draining the generator object that all
                               evaluations share.
 Warm = TRUE starts with the cache already holding the whole domain (an earlier complete evaluation).
 The history h carries, per step, the observation the as-implemented protocol predicts.
 ***************************************************************************************************)
CONSTANTS N, Its, MaxSteps, SharedDrain, Warm, Hist
VARIABLES srcPos, cache, it, h, done
vars == <<srcPos, cache, it, h, done>>
Idle == [st |-> "idle", pos |-> 0, snap |-> 0]
Full == [k \in 1..N |-> k]
Init == /\ srcPos = (IF Warm THEN N ELSE 0) /\ cache = (IF Warm THEN Full ELSE <<>>)
        /\ it = [i \in Its |-> Idle] /\ h = <<>> /\ done = FALSE
Log(i, a, o) == h' = Append(h, [i |-> i, a |-> a, o |-> o])
\* evaluate(): creates the generator; nothing runs yet
Start(i) == /\ it[i].st = "idle" /\ it' = [it EXCEPT ![i].st = "fresh"] /\ UNCHANGED <<srcPos, cache>> /\ Log(i, "start", "-")
\* pull one element from the shared one-shot generator (once exhausted it stays exhausted)
Drain(i) == IF srcPos < N
            THEN /\ srcPos' = srcPos + 1 /\ cache' = Append(cache, srcPos + 1)
                 /\ it' = [it EXCEPT ![i].st = "drain"] /\ Log(i, "next", ToString(srcPos + 1))
            ELSE /\ UNCHANGED <<srcPos, cache>>
                 /\ it' = [it EXCEPT ![i].st = "done"] /\ Log(i, "next", "stop")
NextOf(i) ==
  /\ it[i].st \in {"fresh", "replay", "drain"}
  /\ IF SharedDrain
     THEN LET snap == IF it[i].st = "fresh" THEN Len(cache) ELSE it[i].snap       \* the dict iterator is created at the first next()
              pos == it[i].pos
          IN IF it[i].st = "drain" THEN Drain(i)
             ELSE IF Len(cache) # snap                                             \* dict changed size during iteration
                  THEN /\ it' = [it EXCEPT ![i].st = "done"] /\ UNCHANGED <<srcPos, cache>> /\ Log(i, "next", "RuntimeError")
                  ELSE IF pos < snap
                       THEN /\ it' = [it EXCEPT ![i] = [st |-> "replay", pos |-> pos + 1, snap |-> snap]]
                            /\ UNCHANGED <<srcPos, cache>> /\ Log(i, "next", ToString(cache[pos + 1]))
                       ELSE Drain(i)
     ELSE LET pos == it[i].pos IN
          IF pos < Len(cache)
          THEN /\ it' = [it EXCEPT ![i] = [st |-> "replay", pos |-> pos + 1, snap |-> 0]] /\ UNCHANGED <<srcPos, cache>>
               /\ Log(i, "next", ToString(cache[pos + 1]))
          ELSE IF srcPos < N
               THEN /\ srcPos' = srcPos + 1 /\ cache' = Append(cache, srcPos + 1)
                    /\ it' = [it EXCEPT ![i] = [st |-> "replay", pos |-> pos + 1, snap |-> 0]] /\ Log(i, "next", ToString(srcPos + 1))
               ELSE /\ it' = [it EXCEPT ![i].st = "done"] /\ UNCHANGED <<srcPos, cache>> /\ Log(i, "next", "stop")
Abandon(i) == it[i].st \in {"fresh", "replay", "drain"} /\ it' = [it EXCEPT ![i].st = "abandoned"] /\ UNCHANGED <<srcPos, cache>> /\ Log(i, "abandon", "-")
\* a finished or abandoned evaluation may be followed by a new evaluation of the same query (re-evaluation)
Restart(i) == it[i].st \in {"done", "abandoned"} /\ it' = [it EXCEPT ![i] = [st |-> "fresh", pos |-> 0, snap |-> 0]]
              /\ UNCHANGED <<srcPos, cache>> /\ Log(i, "restart", "-")
Step == /\ ~done /\ Len(h) < MaxSteps /\ done' = FALSE
        /\ \E i \in Its : Start(i) \/ NextOf(i) \/ Abandon(i) \/ Restart(i)
Finish == /\ ~done /\ Len(h) = MaxSteps /\ done' = TRUE /\ UNCHANGED <<srcPos, cache, it, h>>
Next == Step \/ Finish
Spec == Init /\ [][Next]_vars
\* R as an invariant over the history: within one evaluation (between start/restart markers) the k-th value is k and
\* "stop" comes exactly after N values
RECURSIVE EvalOK(_, _, _)
EvalOK(s, k, cnt) == IF k > Len(s) THEN TRUE
                     ELSE IF s[k].a \in {"start", "restart"} THEN EvalOK(s, k + 1, 0)
                     ELSE IF s[k].a = "abandon" THEN EvalOK(s, k + 1, cnt)
                     ELSE /\ s[k].o = (IF cnt < N THEN ToString(cnt + 1) ELSE "stop")
                          /\ EvalOK(s, k + 1, cnt + 1)
C03 == \A i \in Its : EvalOK(SelectSeq(h, LAMBDA e : e.i = i), 1, 0)
Emit == IF Hist /\ done THEN PrintT(ToJson([h |-> h, ok |-> C03])) ELSE TRUE
====
