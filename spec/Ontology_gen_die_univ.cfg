CONSTANTS
  Model = "univ"
  MaxSteps = 3
  Hist = TRUE
  AllowDie = TRUE
  TransOnlyAsserted = FALSE
  TransOutOnly = FALSE
  NoInverseOfInferred = FALSE
  DirectSuperOnly = FALSE
SPECIFICATION Spec
CONSTRAINT EmitDie
