CONSTANTS
  MaxBranches = 4
  OnlyShapes = "plain"
INIT Init
NEXT Next
INVARIANT Agree
