CONSTANT OffByOne = FALSE
SPECIFICATION Spec
INVARIANT BindOK
