CONSTANTS
  N = 4
  Its = {1, 2}
  MaxSteps = 14
  SharedDrain = TRUE
  Warm = FALSE
  Hist = TRUE
SPECIFICATION Spec
CONSTRAINT Emit
