CONSTANTS
  MaxObj = 3
  MaxSteps = 6
  CreateClasses = {"Mid","Leaf","DD"}
  QueryClasses = {"DA","Base","Mid"}
  AllowClear = TRUE
  AllowRelate = FALSE
  AllowQueryX = FALSE
  AllowSweep = TRUE
  AllowDeclare = FALSE
  AllowDetach = FALSE
  AllowInfer = FALSE
  CopyModes = {"copy","from_dao"}
  UnregisteredModes = {"from_dao"}
  Hist = FALSE
  PopIdOfNone = FALSE
  StaleRelationIndex = FALSE
  DupSubclassList = FALSE
  StrongExprTable = FALSE
SPECIFICATION Spec
INVARIANT TypeOK
INVARIANT C13
INVARIANT C14
INVARIANT C20reg
INVARIANT C20pin
INVARIANT C20same
INVARIANT RegistryComplete
