---- MODULE SymbolGraph ----
EXTENDS Naturals, Sequences, FiniteSets, TLC, Json
(***************************************************************************************************
 C13 / C14 / C20 - the process-wide registry of Symbol instances.

 Layer R (what the properties talk about)
   objects 1..next-1 with a class; `roots` = objects the user still references; `fld` = field
   contents (triples <<field, source, target>>) which are the heap references between objects;
   `dead` = reclaimed objects under CPython semantics with the cycle collector switched off:
   Drop frees what reference counting frees, Collect frees every unreachable object.
   `tracked` = objects registered in the current registry epoch; `facts` = relations the graph must hold.
   QueryR(T)   = every live tracked instance of T or a subclass, once.
   Relate(p,c) = p.works_for = c : facts works_for(p,c), member_of(p,c), members(c,p) and the
                 corresponding field contents.
 Layer I (what symbol_graph.py does)
   nodes (index -> object), LIFO free list of node indices (rustworkx), the id-keyed instance index
   (abstracted to the set of node indices whose entry it still holds), per-class wrapper lists,
   the relation index and the graph edges over node indices.
   Deviation switches (TRUE = pinned code, FALSE = what the properties need):
     PopIdOfNone         remove_node pops id(None): the entry of a dead wrapper stays in the instance index
     StaleRelationIndex  the relation index keeps pairs of removed nodes
     DupSubclassList     recursive_subclasses lists a diamond's bottom class once per path
     StrongExprTable     evaluating a query pins every value it ranged over (process-wide expression tables)
 ***************************************************************************************************)
CONSTANTS MaxObj, MaxSteps,
          CreateClasses,      \* classes Create may instantiate
          QueryClasses,       \* classes Query may ask for
          AllowClear, AllowRelate, AllowSweep, AllowQueryX,
          AllowDeclare,       \* a query object may be built first (Declare) and evaluated later (EvalDeclared)
          AllowInfer,         \* a rule query may infer a new instance from a live one (Infer)
          AllowDetach,        \* an instance referring to another through a plain attribute (CreateRef) and the reset of that reference (Detach)
          CopyModes,          \* ways other than calling the class in which a new instance comes into being from a live one:
                              \* copy | deepcopy | replace | from_dao (ORM reconstruction)  - {} switches CreateFrom off
          UnregisteredModes,  \* deviation: creation modes whose allocation bypasses Symbol.__new__ ({} = as implemented)
          Hist,               \* TRUE = keep the history variable (generator configs)
          PopIdOfNone, StaleRelationIndex, DupSubclassList, StrongExprTable

VARIABLES next, cls, roots, fld, dead, deadR, tracked, facts, pinned,      \* R (+ pinned: I-level holder; dead = as implemented, deadR = as the property demands)
          nodes, freeIdx, instIdx, classIdx, relIndex, edges,       \* I
          lastQ, lastRel, steps, h, declared
vars == <<next, cls, roots, fld, dead, deadR, tracked, facts, pinned, nodes, freeIdx, instIdx, classIdx, relIndex, edges,
          lastQ, lastRel, steps, h, declared>>

AllClasses == {"Base", "Mid", "Leaf", "Other", "DA", "DB1", "DB2", "DD", "P", "C", "T"}      \* T = instances inferred by a rule
\* subclass lists in the order  [T] + recursive_subclasses(T)  (breadth of __subclasses__, then recursion)
SubList(T) == CASE T = "Base" -> <<"Base", "Mid", "Leaf">>
                [] T = "Mid"  -> <<"Mid", "Leaf">>
                [] T = "DA"   -> IF DupSubclassList THEN <<"DA", "DB1", "DB2", "DD", "DD">> ELSE <<"DA", "DB1", "DB2", "DD">>
                [] T = "DB1"  -> <<"DB1", "DD">>
                [] T = "DB2"  -> <<"DB2", "DD">>
                [] OTHER      -> <<T>>
SubStar(T) == { SubList(T)[i] : i \in DOMAIN SubList(T) }

Objs == 1..(next - 1)
Alive == Objs \ dead
Refs == { <<t[2], t[3]>> : t \in fld }
RECURSIVE Reach(_, _, _)
Reach(S, R, live) == LET S2 == S \cup { t \in live : \E s \in S : <<s, t>> \in R } IN IF S2 = S THEN S ELSE Reach(S2, R, live)
Unreach(rt) == Alive \ Reach(rt \cap Alive, Refs, Alive)
\* reference counting frees an unreachable object unless it is on, or reachable from, a cycle of unreachable objects
Freed(rt) == LET U == Unreach(rt)
                 inU == { e \in Refs : e[1] \in U /\ e[2] \in U }
                 onc(x) == x \in Reach({ t \in U : <<x, t>> \in inU }, inU, U)
                 kept == Reach({ x \in U : onc(x) }, inU, U)
             IN U \ kept
\* the same under an explicit reference relation R (for a step that changes the references themselves)
FreedIn(rt, R, live) == LET U == live \ Reach(rt \cap live, R, live)
                            inU == { e \in R : e[1] \in U /\ e[2] \in U }
                            onc(x) == x \in Reach({ t \in U : <<x, t>> \in inU }, inU, U)
                            kept == Reach({ x \in U : onc(x) }, inU, U)
                        IN U \ kept
Holders == roots \cup pinned
\* the same with the reference-level (R) notion of death: only the user's references count
AliveR == Objs \ deadR
UnreachR(rt) == AliveR \ Reach(rt \cap AliveR, Refs, AliveR)
FreedR(rt) == LET U == UnreachR(rt)
                  inU == { e \in Refs : e[1] \in U /\ e[2] \in U }
                  onc(x) == x \in Reach({ t \in U : <<x, t>> \in inU }, inU, U)
                  kept == Reach({ x \in U : onc(x) }, inU, U)
              IN U \ kept

Idx == DOMAIN nodes
Registered(o) == \E i \in Idx : nodes[i] = o
NodeOf(o) == CHOOSE i \in Idx : nodes[i] = o
MaxIdx == IF Idx = {} THEN 0 ELSE CHOOSE m \in Idx : \A k \in Idx : k <= m
Fresh == Cardinality(Idx) + Len(freeIdx)        \* rustworkx indices start at 0
TakeIdx == IF freeIdx # <<>> THEN freeIdx[Len(freeIdx)] ELSE Fresh
PopFree == IF freeIdx # <<>> THEN SubSeq(freeIdx, 1, Len(freeIdx) - 1) ELSE freeIdx

Log(rec) == h' = IF Hist THEN Append(h, rec) ELSE h

EmptyClassIdx == [c \in AllClasses |-> <<>>]
Init == /\ next = 1 /\ cls = <<>> /\ roots = {} /\ fld = {} /\ dead = {} /\ deadR = {} /\ tracked = {} /\ facts = {} /\ pinned = {}
        /\ nodes = <<>> /\ freeIdx = <<>> /\ instIdx = {} /\ classIdx = EmptyClassIdx /\ relIndex = {} /\ edges = {}
        /\ lastQ = <<>> /\ lastRel = <<>> /\ steps = 0 /\ h = <<>> /\ declared = "-"

\* ---- registry primitives (layer I) as state functions over a record  g = [nodes, free, inst, cidx, rel, edges]
G == [nodes |-> nodes, free |-> freeIdx, inst |-> instIdx, cidx |-> classIdx, rel |-> relIndex, edges |-> edges]
AddNode(g, o, c) ==
  LET i == IF g.free # <<>> THEN g.free[Len(g.free)] ELSE Cardinality(DOMAIN g.nodes) + Len(g.free)
  IN [g EXCEPT !.nodes = [k \in DOMAIN g.nodes \cup {i} |-> IF k = i THEN o ELSE g.nodes[k]],
               !.free = IF g.free # <<>> THEN SubSeq(g.free, 1, Len(g.free) - 1) ELSE g.free,
               !.inst = @ \cup {i},
               !.cidx = [@ EXCEPT ![c] = Append(@, i)]]
RemoveSeq(s, i) == SelectSeq(s, LAMBDA x : x # i)
RECURSIVE RemoveNodes(_, _, _)
\* remove_dead_instances walks the nodes in index order
RemoveNodes(g, todo, deadSet) ==
  IF todo = {} THEN g
  ELSE LET i == CHOOSE m \in todo : \A k \in todo : m <= k
           c == cls[g.nodes[i]]
           g1 == [g EXCEPT !.nodes = [k \in DOMAIN g.nodes \ {i} |-> g.nodes[k]],
                           !.free = Append(@, i),
                           !.inst = IF PopIdOfNone THEN @ ELSE @ \ {i},
                           !.cidx = [@ EXCEPT ![c] = RemoveSeq(@, i)],
                           !.edges = { e \in @ : e[2] # i /\ e[3] # i },
                           !.rel = IF StaleRelationIndex THEN @ ELSE { e \in @ : e[2] # i /\ e[3] # i }]
       IN RemoveNodes(g1, todo \ {i}, deadSet)
SweepG(g, deadSet) == RemoveNodes(g, { i \in DOMAIN g.nodes : g.nodes[i] \in deadSet }, deadSet)
SetG(g) == /\ nodes' = g.nodes /\ freeIdx' = g.free /\ instIdx' = g.inst /\ classIdx' = g.cidx
           /\ relIndex' = g.rel /\ edges' = g.edges
UnchangedG == UNCHANGED <<nodes, freeIdx, instIdx, classIdx, relIndex, edges>>

\* ---- actions
Create(c) ==
  /\ next <= MaxObj
  /\ next' = next + 1 /\ cls' = Append(cls, c) /\ roots' = roots \cup {next} /\ tracked' = tracked \cup {next}
  /\ SetG(AddNode(G, next, c))
  /\ UNCHANGED <<fld, dead, deadR, facts, pinned, lastQ, lastRel>>
  /\ Log([a |-> "create", c |-> c, o |-> next, live |-> Alive \cup {next}, liveR |-> AliveR \cup {next}])

\* a new instance of p's class that is not made by calling the class: copy.copy(p), copy.deepcopy(p), dataclasses.replace(p),
\* or to_dao(p).from_dao().  Every such instance is an instance of its type like any other (R); the registration happens in
\* Symbol.__new__, which all of these paths go through as implemented.
CreateFrom(p, m) ==
  /\ next <= MaxObj /\ p \in roots /\ p \notin dead
  /\ next' = next + 1 /\ cls' = Append(cls, cls[p]) /\ roots' = roots \cup {next} /\ tracked' = tracked \cup {next}
  /\ IF m \in UnregisteredModes THEN UnchangedG ELSE SetG(AddNode(G, next, cls[p]))
  /\ UNCHANGED <<fld, dead, deadR, facts, pinned, lastQ, lastRel>>
  /\ Log([a |-> "create", c |-> cls[p], o |-> next, mode |-> m, src |-> p, live |-> Alive \cup {next}, liveR |-> AliveR \cup {next}])

Drop(o) ==
  /\ o \in roots
  /\ roots' = roots \ {o}
  /\ dead' = dead \cup Freed((roots \ {o}) \cup pinned)
  /\ deadR' = deadR \cup FreedR(roots \ {o})
  /\ UnchangedG /\ UNCHANGED <<next, cls, fld, tracked, facts, pinned, lastQ, lastRel>>
  /\ Log([a |-> "drop", o |-> o, live |-> Objs \ dead', liveR |-> Objs \ deadR'])

Collect ==
  /\ (Unreach(Holders) # {} \/ UnreachR(roots) # {})
  /\ dead' = dead \cup Unreach(Holders)
  /\ deadR' = deadR \cup UnreachR(roots)
  /\ UnchangedG /\ UNCHANGED <<next, cls, roots, fld, tracked, facts, pinned, lastQ, lastRel>>
  /\ Log([a |-> "collect", live |-> Objs \ dead', liveR |-> Objs \ deadR'])

\* SymbolGraph().remove_dead_instances()
Sweep ==
  /\ AllowSweep
  /\ \E i \in Idx : nodes[i] \in dead
  /\ SetG(SweepG(G, dead))
  /\ UNCHANGED <<next, cls, roots, fld, dead, deadR, tracked, facts, pinned, lastQ, lastRel>>
  /\ Log([a |-> "sweep", live |-> Alive, liveR |-> AliveR])

\* an(entity(let(T, None))).evaluate(): sweep, then walk the per-class wrapper lists
QueryBag(g, T) == LET sl == SubList(T) IN
  [o \in Objs |-> Cardinality({ <<k, j>> \in (DOMAIN sl) \X (1..MaxObj) :
                                  j \in DOMAIN g.cidx[sl[k]] /\ g.nodes[g.cidx[sl[k]][j]] = o })]
QueryR(T) == { o \in (tracked \cap Alive) : cls[o] \in SubStar(T) }
\* C13 at the moment of the query: every live tracked instance of the type exactly once, no dead one, and nothing
\* else except (at most once) live survivors of an earlier registry epoch
C13At(T, bag) == \A o \in DOMAIN bag :
                    /\ (o \in QueryR(T) => bag[o] = 1)
                    /\ bag[o] <= 1
                    /\ (bag[o] > 0 => o \notin dead /\ cls[o] \in SubStar(T))
QueryAs(T, tag) ==
  /\ LET g == SweepG(G, dead)
         bag == QueryBag(g, T)
     IN /\ SetG(g)
        /\ lastQ' = <<T, bag, C13At(T, bag)>>
        /\ pinned' = IF StrongExprTable THEN pinned \cup { o \in Objs : bag[o] > 0 } ELSE pinned
        /\ Log([a |-> tag, c |-> T, live |-> Alive, liveR |-> AliveR,
                must |-> QueryR(T),                                              \* each exactly once
                may |-> { o \in Alive \ tracked : cls[o] \in SubStar(T) }])      \* survivors of clear(): unspecified
  /\ UNCHANGED <<next, cls, roots, fld, dead, deadR, tracked, facts, lastRel>>

Query(T) == QueryAs(T, "query")

\* C14 at the moment of the assertion: the three relations are in the graph and the fields agree
C14At(g, f, p, c) ==
  LET abs == { <<e[1], g.nodes[e[2]], g.nodes[e[3]]>> : e \in { x \in g.edges : x[2] \in DOMAIN g.nodes /\ x[3] \in DOMAIN g.nodes } }
      want == {<<"works_for", p, c>>, <<"member_of", p, c>>, <<"members", c, p>>}
  IN want \subseteq abs /\ want \subseteq f
\* an(entity(let(T, [every instance of T the user holds]))).evaluate(): sweeps like every evaluation; the values of the
\* explicit domain are cached in the variable, which the process-wide expression tables keep (StrongExprTable)
QueryX(T) ==
  /\ AllowQueryX
  /\ LET g == SweepG(G, dead)
         dom == { o \in roots : cls[o] \in SubStar(T) }
     IN /\ SetG(g)
        /\ pinned' = IF StrongExprTable THEN pinned \cup dom ELSE pinned
        /\ Log([a |-> "queryx", c |-> T, live |-> Alive, liveR |-> AliveR, dom |-> dom])
  /\ UNCHANGED <<next, cls, roots, fld, dead, deadR, tracked, facts, lastQ, lastRel>>

\* it = an(entity(x, x.name != "")).evaluate() with x = let(T, None); next(it); del it - a partially consumed evaluation.
\* Only the pulled prefix of the domain (here: its first element) is cached by the variable.
QueryFirst(T) ==
  /\ AllowQueryX
  /\ LET g == SweepG(G, dead)
         sl == SubList(T)
         firsts == { k \in DOMAIN sl : g.cidx[sl[k]] # <<>> }
         first == IF firsts = {} THEN {}
                  ELSE LET k == CHOOSE m \in firsts : \A j \in firsts : m <= j IN { g.nodes[g.cidx[sl[k]][1]] }
     IN /\ SetG(g)
        /\ pinned' = IF StrongExprTable THEN pinned \cup first ELSE pinned
        /\ Log([a |-> "queryfirst", c |-> T, live |-> Alive, liveR |-> AliveR, first |-> first])
  /\ UNCHANGED <<next, cls, roots, fld, dead, deadR, tracked, facts, lastQ, lastRel>>

\* p.works_for = c  (descriptor-managed; WorksFor is a sub-property of MemberOf whose inverse is Member)
Ensure(g, o) == IF \E i \in DOMAIN g.nodes : g.nodes[i] = o THEN g ELSE AddNode(g, o, cls[o])
IdxIn(g, o) == CHOOSE i \in DOMAIN g.nodes : g.nodes[i] = o
Relate(p, c) ==
  /\ AllowRelate
  /\ p \in roots /\ c \in roots /\ cls[p] = "P" /\ cls[c] = "C"
  /\ <<"works_for", p, c>> \notin fld
  /\ \A t \in fld : ~(t[1] = "works_for" /\ t[2] = p)          \* single-valued field written once per person
  /\ LET g1 == Ensure(Ensure(G, p), c)
         pi == IdxIn(g1, p)  ci == IdxIn(g1, c)
         wf == <<"works_for", pi, ci>>  mo == <<"member_of", pi, ci>>  mb == <<"members", ci, pi>>
         known == wf \in g1.rel
         new == IF known THEN {} ELSE {wf} \cup ({mo, mb} \ g1.rel)
         g2 == [g1 EXCEPT !.rel = @ \cup new, !.edges = @ \cup new]
         \* the assigned field is always written; inferred fields only for newly recorded relations
         wrote == {<<"works_for", p, c>>}
                  \cup (IF mo \in new THEN {<<"member_of", p, c>>} ELSE {})
                  \cup (IF mb \in new THEN {<<"members", c, p>>} ELSE {})
     IN /\ SetG(g2)
        /\ fld' = fld \cup wrote
        /\ facts' = facts \cup {<<"works_for", p, c>>, <<"member_of", p, c>>, <<"members", c, p>>}
        /\ tracked' = tracked \cup {p, c}
        /\ lastRel' = <<p, c, C14At(g2, fld \cup wrote, p, c)>>
        /\ Log([a |-> "relate", p |-> p, c |-> c, live |-> Alive, liveR |-> AliveR,
                facts |-> {<<"works_for", p, c>>, <<"member_of", p, c>>, <<"members", c, p>>}])
  /\ UNCHANGED <<next, cls, roots, dead, deadR, pinned, lastQ>>

\* SymbolGraph().clear(); SymbolGraph()
Clear ==
  /\ AllowClear /\ tracked # {}
  /\ tracked' = {} /\ facts' = {}
  /\ nodes' = <<>> /\ freeIdx' = <<>> /\ instIdx' = {} /\ classIdx' = EmptyClassIdx /\ relIndex' = {} /\ edges' = {}
  /\ UNCHANGED <<next, cls, roots, fld, dead, deadR, pinned, lastQ, lastRel>>
  /\ Log([a |-> "clear", live |-> Alive, liveR |-> AliveR])

\* A rule query over the explicit domain [p] infers a new instance of class T from p:  with q: Add(v, inference(T)(p = x)).
\* The inferred instance is an instance like any other: it is registered, it refers to p, the caller holds the result; the query
\* object and its variables are dropped at once.  The evaluation sweeps first and (as implemented) pins what its variable ranged over.
Infer(p) ==
  /\ AllowInfer /\ next <= MaxObj /\ p \in roots /\ p \notin dead /\ cls[p] = "P"
  /\ next' = next + 1 /\ cls' = Append(cls, "T") /\ roots' = roots \cup {next} /\ tracked' = tracked \cup {next, p}
  /\ fld' = fld \cup {<<"p", next, p>>}
  /\ SetG(AddNode(Ensure(SweepG(G, dead), p), next, "T"))
  /\ pinned' = IF StrongExprTable THEN pinned \cup {p} ELSE pinned
  /\ UNCHANGED <<dead, deadR, facts, lastQ, lastRel>>
  /\ Log([a |-> "infer", p |-> p, o |-> next, live |-> Alive \cup {next}, liveR |-> AliveR \cup {next}])

\* Tag(p = person) made by CALLING the class: an instance of T that refers to p through a plain (unmanaged) attribute; no query
\* is involved, so nothing is pinned.
CreateRef(p) ==
  /\ AllowDetach /\ next <= MaxObj /\ p \in roots /\ p \notin dead /\ cls[p] = "P"
  /\ next' = next + 1 /\ cls' = Append(cls, "T") /\ roots' = roots \cup {next} /\ tracked' = tracked \cup {next}
  /\ fld' = fld \cup {<<"p", next, p>>}
  /\ SetG(AddNode(G, next, "T"))
  /\ UNCHANGED <<dead, deadR, facts, pinned, lastQ, lastRel>>
  /\ Log([a |-> "createref", p |-> p, o |-> next, live |-> Alive \cup {next}, liveR |-> AliveR \cup {next}])
\* tag.p = None: the plain reference is reset; whoever was held only through it dies by reference counting.  The symbol graph
\* is not involved (the attribute is not a managed property).
Detach(t) ==
  /\ AllowDetach /\ t \in roots /\ t \notin dead /\ cls[t] = "T" /\ (\E e \in fld : e[1] = "p" /\ e[2] = t)
  /\ LET f2 == { e \in fld : ~(e[1] = "p" /\ e[2] = t) }
         R2 == { <<e[2], e[3]>> : e \in f2 }
     IN /\ fld' = f2
        /\ dead' = dead \cup FreedIn(roots \cup pinned, R2, Alive)
        /\ deadR' = deadR \cup FreedIn(roots, R2, AliveR)
  /\ UnchangedG /\ UNCHANGED <<next, cls, roots, tracked, facts, pinned, lastQ, lastRel>>
  /\ Log([a |-> "detach", o |-> t, live |-> Objs \ dead', liveR |-> Objs \ deadR'])

\* q = an(entity(let(T, None))) is built now and evaluated later: building touches nothing; the evaluation ranges over the
\* instances that exist WHEN IT RUNS (not over those that existed when the query was written)
Declare(T) ==
  /\ AllowDeclare /\ declared = "-"
  /\ declared' = T
  /\ UnchangedG /\ UNCHANGED <<next, cls, roots, fld, dead, deadR, tracked, facts, pinned, lastQ, lastRel>>
  /\ Log([a |-> "declare", c |-> T, live |-> Alive, liveR |-> AliveR])
EvalDeclared ==
  /\ AllowDeclare /\ declared # "-"
  /\ QueryAs(declared, "evaldeclared")
Step == \/ \E c \in CreateClasses : Create(c)
        \/ \E p \in roots, m \in CopyModes : CreateFrom(p, m)
        \/ \E o \in roots : Drop(o)
        \/ Collect
        \/ Sweep
        \/ \E T \in QueryClasses : Query(T)
        \/ \E T \in QueryClasses : QueryX(T)
        \/ \E T \in QueryClasses : QueryFirst(T)
        \/ \E p \in roots, c \in roots : Relate(p, c)
        \/ \E p \in roots : Infer(p)
        \/ \E p \in roots : CreateRef(p)
        \/ \E t \in roots : Detach(t)
        \/ Clear
NextOld == /\ steps < MaxSteps /\ steps' = steps + 1
        /\ \/ \E c \in CreateClasses : Create(c)
           \/ \E p \in roots, m \in CopyModes : CreateFrom(p, m)
           \/ \E o \in roots : Drop(o)
           \/ Collect
           \/ Sweep
           \/ \E T \in QueryClasses : Query(T)
           \/ \E T \in QueryClasses : QueryX(T)
           \/ \E T \in QueryClasses : QueryFirst(T)
           \/ \E p \in roots, c \in roots : Relate(p, c)
           \/ Clear
Next == /\ steps < MaxSteps /\ steps' = steps + 1
        /\ \/ (Step /\ UNCHANGED declared)
           \/ \E T \in QueryClasses : Declare(T)
           \/ (EvalDeclared /\ declared' = "-")
Spec == Init /\ [][Next]_vars

\* ---- properties
C13 == lastQ # <<>> => lastQ[3]
\* C14: after p.works_for = c between two live instances, the three relations are in the graph and the fields agree
C14 == lastRel # <<>> => lastRel[3]
\* C20 (registry part): once the dead have been swept nothing refers to removed nodes, and (lifetime part)
\* nothing but the user's own references keeps an instance alive
NoDeadNodes == \A i \in Idx : nodes[i] \notin dead
C20reg == NoDeadNodes => /\ instIdx \subseteq Idx
                         /\ \A e \in relIndex : e[2] \in Idx /\ e[3] \in Idx
                         /\ \A e \in edges : e[2] \in Idx /\ e[3] \in Idx
C20life == Unreach(roots) = {} => Unreach(Holders) = {}      \* trivially true; the real statement is:
C20pin == pinned \subseteq Reach(roots, Refs, Alive)          \* krrood pins nothing the user cannot reach
C20same == dead = deadR                                       \* an instance dies exactly when the user's references say so
TypeOK == /\ dead \subseteq Objs /\ roots \subseteq Objs /\ roots \cap dead = {}
          /\ \A i \in Idx : nodes[i] \in Objs
          /\ \A c \in AllClasses : \A j \in DOMAIN classIdx[c] : classIdx[c][j] \in Idx
          /\ \A a, b \in Idx : nodes[a] = nodes[b] => a = b
          /\ \A k \in DOMAIN freeIdx : freeIdx[k] \notin Idx
\* registry and heap agree: every live tracked object has exactly one node
RegistryComplete == \A o \in tracked \cap Alive : Registered(o)

\* ---- directed generator for C14 / C20: build, destroy, sweep, rebuild (the phases of "whatever lived and died before")
RECURSIVE PhaseAfter(_, _, _)
PhaseAfter(hist, k, ph) ==
  IF k > Len(hist) THEN ph
  ELSE LET a == hist[k].a IN
       CASE ph = 1 -> IF a \in {"create", "relate"} THEN PhaseAfter(hist, k + 1, 1)
                      ELSE IF a = "drop" THEN PhaseAfter(hist, k + 1, 2) ELSE 0
         [] ph = 2 -> IF a \in {"drop", "collect"} THEN PhaseAfter(hist, k + 1, 2)
                      ELSE IF a \in {"sweep", "query"} THEN PhaseAfter(hist, k + 1, 3) ELSE 0
         [] ph = 3 -> IF a = "create" THEN PhaseAfter(hist, k + 1, 4) ELSE 0
         [] ph = 4 -> IF a \in {"create", "relate", "query"} THEN PhaseAfter(hist, k + 1, 4) ELSE 0
         [] OTHER -> 0
Phased == PhaseAfter(h, 1, 1) # 0
EmitPhased == IF Hist /\ PhaseAfter(h, 1, 1) = 4 /\ h[Len(h)].a = "relate" THEN PrintT(ToJson(h)) ELSE TRUE

Emit == IF Hist /\ steps = MaxSteps THEN PrintT(ToJson(h)) ELSE TRUE
====
