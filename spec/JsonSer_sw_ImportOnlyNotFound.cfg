CONSTANTS
  Part = "tag"
  MaxDepth = 0
  SampleSize = 0
  NoTypeCheck = FALSE
  ImportOnlyNotFound = TRUE
  NoClassCheck = FALSE
SPECIFICATION Spec
INVARIANT OnlyDocumented
