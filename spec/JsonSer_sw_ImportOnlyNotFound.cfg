CONSTANTS
  Part = "tag"
  MaxDepth = 0
  SampleSize = 0
  NoTypeCheck = FALSE
  ImportOnlyNotFound = TRUE
  MroRegistryLookup = FALSE
  NoClassCheck = FALSE
SPECIFICATION Spec
INVARIANT OnlyDocumented
