CONSTANTS
  MaxSteps = 2
  MaxLen = 4
  Hist = FALSE
  ClearBeforeCopy = FALSE
  CopyThroughSet = TRUE
  AliasedFirstAssignment = FALSE
  Churn = FALSE
  StaleReportedCache = FALSE
  UnhookedExtend = FALSE
SPECIFICATION Spec
INVARIANT KeepsData
