CONSTANTS
  MaxSteps = 2
  MaxLen = 4
  Hist = FALSE
  ClearBeforeCopy = FALSE
  CopyThroughSet = TRUE
  UnhookedExtend = FALSE
SPECIFICATION Spec
INVARIANT KeepsData
