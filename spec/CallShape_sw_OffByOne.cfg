CONSTANT OffByOne = TRUE
SPECIFICATION Spec
INVARIANT BindOK
